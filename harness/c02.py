"""C02 - the GLR forest contains every derivation of the input (acyclic grammars)."""
import parglare
from parglare.exceptions import LoopError

from vp import corpus, pgx, refcfg
from vp.symx import Pre, Skip

from .common import bump, excluded_inputs, glr_build, length_of, norm, norm_in, selfcheck_oracle, spec_from_params

INFO = {
    "level": "other",
    "explanation": "Bounded symbolic execution of the real GLRParser.parse (default GLR settings) on symbolic w, "
    "len(w) <= N, for acyclic grammars (acyclicity computed by the reference, not by parglare).  On every accepting "
    "path the reference enumerates all derivation trees of w (chart + memoised enumeration, independent of "
    "parglare) and asserts each is among the forest's trees (production structure + terminal spans); above K trees "
    "the comparison is on packed alternatives (production, normalised child boundaries).  Inputs listed in "
    "known_findings.json for the grammar are excluded by precondition and replayed natively instead.",
    "bounds": {
        "quick": {"N": 4, "K": 200, "grammars": "acyclic GF-shapes + stratified acyclic GF-tiny(3); LALR and SLR"},
        "thorough": {"N": "5 for shapes / 4 for all acyclic GF-tiny(3) and stratified GF-tiny(4)", "K": 200},
    },
    "outside": "inputs longer than N, cyclic grammars, grammars outside the families, priorities/associativities/filters",
    "assumptions": [
        "get_context stubbed; parglare classes realize-atomic",
        "reference derivation enumerator refcfg.Chart (recogniser cross-validated against brute force on every run)",
        "inputs named in known_findings.json are assumed away in the symbolic part and replayed natively",
    ],
}

MANIFEST = {
    "level_text": "Bounded symbolic execution of the real GLR parser: for each acyclic grammar of the families and "
    "each table kind, every input of length <= N (all code points) is covered by an exhausted path tree; on each "
    "accepting path all reference derivations must be present in the returned forest.  Known incompleteness "
    "(hidden recursion through nullables) is listed per grammar/input in known_findings.json.",
    "level_note": "Trusted: CrossHair proxies, z3, the reference chart enumerator; grammar families enumerated "
    "concretely.  Known findings are excluded by precondition (so new failing inputs still alarm).",
}

QUICK_SHAPES = [
    "leftrec", "rightrec", "midrec", "ambig-binop", "ambig-concat", "prop-c03", "hidden-left", "hidden-right",
    "known-c02", "nullable-chain", "nullable-start", "nullable-mid", "nullable-end", "two-nullables", "lr2",
    "lr1-not-lalr", "dangling-else", "lex-a-aa", "lex-a-ab-b", "lex-prefix", "expr", "paren", "list-sep",
    "opt-list", "rr-conflict", "palindrome", "g7", "right-nullable", "bounded-amb", "reduce-many-empty",
    "hidden-left-2", "g8", "lex-alt", "nullable-tails", "glr-revisit", "glr-cyclic-nested", "lalr-late-widening", "twice-same-nt", "nullable-chain-rec", "nullable-tail-alt",
]


def acyclic(gs):
    return [g for g in gs if not g.is_cyclic()]


def universe():
    """Everything any tier/seed can select: (spec, Nmax)."""
    out = [(g, 5) for g in acyclic(corpus.shapes())]
    out += [(g, 5) for g in acyclic(corpus.gf_tiny(3))]
    out += [(g, 4) for g in tiny4()]
    out += [(g, 4) for g in acyclic(corpus.tiny3x3_fixed())]
    return out


def tiny4():
    """Fixed (seed-independent) stratified subset of GF-tiny(4): part of the stated program bound."""
    return corpus.stratified(acyclic(corpus.gf_tiny(4)), 400, 0)


def cases(tier, seed):
    out = []
    if tier == "quick":
        gs = [corpus.shape(n) for n in QUICK_SHAPES]
        gs += corpus.stratified(acyclic(corpus.gf_tiny(3)), 14, seed)
        for g in gs:
            for tb in ("LALR", "SLR"):
                out.append(_case(g, tb, 4))
    else:
        for g in acyclic(corpus.shapes()):
            for tb in ("LALR", "SLR"):
                out.append(_case(g, tb, 5, budget=1500))
        for g in acyclic(corpus.gf_tiny(3)):
            out.append(_case(g, "LALR", 4))
        for g in corpus.stratified(acyclic(corpus.gf_tiny(3)), 100, seed):
            out.append(_case(g, "SLR", 4))
        for g in tiny4():
            out.append(_case(g, "LALR", 4))
        for g in acyclic(corpus.tiny3x3_fixed()):
            out.append(_case(g, "LALR", 4))
    tw = _case(corpus.shape("ambig-concat"), "LALR", 3)
    tw["name"] = "twin:" + tw["name"]
    tw["params"]["twin"] = True
    tw["expect_refuted"] = True
    out.append(tw)
    return out


def _case(g, tb, N, budget=600):
    return {
        "name": "%s|%s|N=%d" % (g.name, tb, N),
        "params": {"grammar": g.short(), "gname": g.name, "tables": tb, "N": N, "K": 200},
        "budget_s": budget,
    }


def build(params, symbolic):
    spec = spec_from_params(params)
    if spec.is_cyclic():
        raise Skip("grammar is cyclic (outside C02's premise)")
    N, K = params["N"], params["K"]
    parser = glr_build(spec, params["tables"])
    if symbolic:
        selfcheck_oracle(spec, min(N, 4))
    skip = [] if params.get("no_skip") else excluded_inputs("C02", spec.short())
    twin = params.get("twin")
    stats = {}

    def h(w: str):
        n = length_of(w, N)
        try:
            forest = parser.parse(w)
        except parglare.SyntaxError:
            bump(stats, "rejected")
            return True  # acceptance is C01's subject
        lex, ey = refcfg.analyse(spec, w, n)
        if not ey.accepted:
            return True  # C01's subject
        nw = norm(w, n, spec.ws)
        if skip and norm_in(nw, skip):
            raise Pre()
        kind, trees, chart = refcfg.derivations(spec, lex, ey, limit=K)
        if kind == "inf":
            return "reference found a cycle in an acyclic grammar (harness error)"
        bump(stats, "accepted")
        try:
            cnt = len(forest)
        except LoopError:
            return "counting the forest raised LoopError on an acyclic grammar"
        if kind == "fin" and cnt <= 4 * K:
            if len(trees) > 1:
                bump(stats, "ambiguous")
            got = set(pgx.conv(forest[i]) for i in range(cnt))
            if twin and len(trees) > 1:
                trees = trees + [("N", spec.start, (), ())]
            for t in trees:
                if t not in got:
                    return "derivation missing from the forest (%d reference derivations, %d forest trees): %r" % (
                        len(trees), cnt, pgx.strip_pos(t))
            return True
        # large forests: compare packed alternatives
        bump(stats, "packed_compare")
        want = chart.packed(spec.start, ey.p0, n)
        have = set()
        for par, poss in pgx.sppf_nodes(forest):
            if poss.is_nonterm():
                ch = poss.children
                if ch:
                    bounds = (lex.skip(ch[0].start_position),) + tuple(lex.skip(c.end_position) for c in ch)
                else:
                    bounds = (lex.skip(par.start_position),)
                have.add((poss.production.symbol.name, pgx.rhs_names(poss.production), bounds))
        for alt in want:
            if alt not in have:
                return "packed alternative missing from the forest: %r" % (alt,)
        return True

    h.stats = stats
    h.expect = [] if twin else ["accepted", "rejected"]
    h.stubs = ["realize_atomic", "get_context"]
    return h
