"""C18 - the dynamic disambiguation filter sees every marked decision and only those."""
import itertools

import parglare
from parglare import REDUCE, SHIFT, GLRParser, Grammar, Parser
from parglare.exceptions import DynamicDisambiguationConflict, LoopError, RRConflicts, SRConflicts

from vp import pgx
from vp.symx import Pre, Skip, native

from .c06 import OPS, expressions, ref_parse
from .common import bump, length_of

INFO = {
    "level": "other",
    "explanation": "Bounded symbolic execution of the real filter plumbing (Parser._init_dynamic_disambiguation / "
    "_dynamic_disambiguation / _call_dynamic_filter, GLR _reduce/_do_shifts filter calls, "
    "LRTable.calc_conflicts_and_dynamic_terminals, Parser._check_parser).  Operator skeleton E: E op_1 E | .. | 'n' "
    "with named operator terminals; the `dynamic` marks on each operator production and terminal are the concrete case "
    "split (all 2^(2k) subsets for k = 2); the input w is symbolic (len <= 5, all strings, not only expressions).  "
    "Recording filters: accept-all, and reject-every-reduction-of-production-j.  Per path: exactly one initial call "
    "with all-None arguments; every later call is a SHIFT to a terminal marked dynamic or a REDUCE of a production "
    "marked dynamic, carrying that production and len(rhs) sub-results whose symbols are the RHS in order; no decision on "
    "a marked symbol/production that shows up in the result was hidden from the filter; a rejected reduction's production "
    "never appears in a returned tree; accept-all gives the result of the same parser without a filter (LR and GLR).  "
    "The same on a grammar with a LAYOUT rule (layout skipped by the nested layout parser, N = 4).  "
    "Precedence filter: symbolic unbounded priorities p_i and associativities as in C06, all marks on, strategies off: "
    "LR and GLR results for every expression of a concrete list equal the operator-precedence reference under the symbolic "
    "ordering (which C06 ties to static priorities).",
    "bounds": {"quick": {"k": 2, "N": 5, "precedence": "k = 2 and 3, expressions <= 3 operators"}, "thorough": {"k": "2 (N=6), 3 (N=5, 16 mark subsets)"}},
    "outside": "filters other than the three listed; more than 3 operators; dynamic marks on non-operator symbols",
    "assumptions": ["get_context stubbed; realize-atomic marks", "when the filter rejects every available action the LR parser's failure mode is not asserted (any exception counts as 'not taken')"],
}

MANIFEST = {
    "level_text": "Bounded symbolic execution of the dynamic-filter call sites of both parsers with recording filters; all "
    "subsets of dynamic marks for 2 operators, all inputs of length <= N; precedence-encoding filter under symbolic "
    "unbounded priorities.",
    "level_note": "Trusted: CrossHair proxies, z3, the operator-precedence reference shared with C06.",
}


def grammar_text(k, pd, td, layout=False):
    alts = ["E op%d E%s" % (i, " {dynamic}" if pd[i] else "") for i in range(k)] + ["'n'"]
    lines = ["E: " + " | ".join(alts) + ";"]
    if layout:  # layout skipped by the LAYOUT sub-parser instead of the ws characters
        lines += ["LAYOUT: LayoutItem | LAYOUT LayoutItem | EMPTY;", "LayoutItem: SP | HASH;"]
    lines.append("terminals")
    for i in range(k):
        lines.append("op%d: '%s'%s;" % (i, OPS[i], " {dynamic}" if td[i] else ""))
    if layout:
        lines += ["SP: ' ';", "HASH: '#';"]
    return "\n".join(lines)


def cases(tier, seed):
    out = []
    k = 2
    N = 5 if tier == "quick" else 6
    for pd in itertools.product((0, 1), repeat=k):
        for td in itertools.product((0, 1), repeat=k):
            for mode in ("lr", "glr"):
                for filt in ("accept", "reject0", "reject1"):
                    out.append({"name": "marks p=%s t=%s|%s|%s|N=%d" % ("".join(map(str, pd)), "".join(map(str, td)), mode, filt, N),
                                "params": {"kind": "calls", "k": k, "pd": list(pd), "td": list(td), "mode": mode, "filter": filt, "N": N},
                                "budget_s": 1500})
    # the same with a LAYOUT rule: layout is skipped by a nested parser, which must not involve the filter
    for pd, td in (((1, 0), (0, 1)), ((1, 1), (1, 1))):
        for mode in ("lr", "glr"):
            for filt in (("accept",) if tier == "quick" else ("accept", "reject0")):
                out.append({"name": "marks p=%s t=%s|%s|%s|LAYOUT rule|N=4" % ("".join(map(str, pd)), "".join(map(str, td)), mode, filt),
                            "params": {"kind": "calls", "k": 2, "pd": list(pd), "td": list(td), "mode": mode, "filter": filt, "N": 4, "layout": True},
                            "budget_s": 1500})
    if tier != "quick":
        import random

        rnd = random.Random(seed)
        k = 3
        subsets = [(tuple(rnd.randint(0, 1) for _ in range(3)), tuple(rnd.randint(0, 1) for _ in range(3))) for _ in range(16)]
        for pd, td in subsets:
            for mode in ("lr", "glr"):
                out.append({"name": "marks3 p=%s t=%s|%s|accept|N=5" % ("".join(map(str, pd)), "".join(map(str, td)), mode),
                            "params": {"kind": "calls", "k": 3, "pd": list(pd), "td": list(td), "mode": mode, "filter": "accept", "N": 5},
                            "budget_s": 3000})
    for k in (2, 3):
        for lefts in itertools.product((True, False), repeat=k):
            out.append({"name": "precedence k=%d left=%s" % (k, "".join("LR"[not l] for l in lefts)),
                        "params": {"kind": "prec", "k": k, "left": list(lefts), "maxops": 3}, "budget_s": 1500})
    out.append({"name": "twin:marks", "params": {"kind": "calls", "k": 2, "pd": [1, 0], "td": [0, 1], "mode": "lr", "filter": "accept", "N": 3, "twin": True},
                "expect_refuted": True, "budget_s": 300})
    return out


def spans_of(subresults):
    # sub-results are tree nodes (LR with build_tree) or GSS parents (GLR); plain action results carry no span
    return tuple((getattr(x, "start_position", None), getattr(x, "end_position", None)) if not isinstance(x, (str, list, tuple)) else (None, None)
                 for x in subresults)


def node_keys(root, dyn_prods):
    """(prod_id, children spans) of every node of a dynamic production in a parglare tree (LR node or GLR Tree)."""
    out = []

    def walk(nd):
        if nd.is_term():
            return
        if nd.production.prod_id in dyn_prods:
            out.append((nd.production.prod_id, tuple((c.start_position, c.end_position) for c in nd)))
        for c in nd:
            walk(c)

    walk(root)
    return out


def build(params, symbolic):
    if params["kind"] == "prec":
        return build_prec(params, symbolic)
    k, pd, td, mode, filt, N = params["k"], params["pd"], params["td"], params["mode"], params["filter"], params["N"]
    twin = params.get("twin")
    text = grammar_text(k, pd, td, params.get("layout", False))
    calls = []
    rej = int(filt[-1]) if filt.startswith("reject") else None

    approved = []

    def the_filter(context, from_state, to_state, action, production, subresults):
        calls.append((action, to_state, production, subresults, context))
        if action is None:
            return None
        if rej is not None and action is REDUCE and production.prod_id == rej + 1:
            return False
        if action is REDUCE:
            approved.append((production.prod_id, spans_of(subresults)))
        return True

    Cls = Parser if mode == "lr" else GLRParser
    kw = {"build_tree": True} if mode == "lr" else {}
    try:
        parser = Cls(Grammar.from_string(text), dynamic_filter=the_filter, **kw)
        plain = Cls(Grammar.from_string(text), **kw)
    except (SRConflicts, RRConflicts) as e:
        raise Skip("does not construct: %s" % type(e).__name__)
    g = parser.grammar
    dyn_prods = {1 + i for i in range(k) if pd[i]}
    dyn_terms = {"op%d" % i for i in range(k) if td[i]}
    if twin:
        dyn_terms = set()
    stats = {}

    def prods_in(t, acc):
        if t[0] == "N":
            acc.add((t[1], t[2]))
            for c in t[3]:
                prods_in(c, acc)
        return acc

    def h(w: str):
        n = length_of(w, N)
        del calls[:]
        del approved[:]
        res, exc = None, None
        try:
            res = parser.parse(w)
        except parglare.SyntaxError as e:
            exc = e
        except DynamicDisambiguationConflict as e:
            exc = e
        except IndexError as e:
            if rej is None:
                return "IndexError with an accept-all filter"
            exc = e  # every available action rejected: failure mode not asserted
        if not calls or calls[0][0] is not None or any(x is not None for x in calls[0][1:4]):
            return "first filter call is not the all-None initialisation call: %r" % (calls[:1],)
        for c in calls[1:]:
            action, to_state, production, subresults, ctx = c
            if action is None:
                return "a second initialisation call"
            if action is SHIFT:
                if to_state.symbol.name not in dyn_terms:
                    return "filter called for SHIFT of %s which is not marked dynamic" % to_state.symbol.name
            elif action is REDUCE:
                if production.prod_id not in dyn_prods:
                    return "filter called for REDUCE of production %d which is not marked dynamic" % production.prod_id
                rhs = [s for s in list.__iter__(production.rhs) if s.name != "EMPTY"]
                if subresults is None or len(subresults) != len(rhs):
                    return "REDUCE call carries %r sub-results for a RHS of length %d" % (subresults and len(subresults), len(rhs))
                for s, sym in zip(subresults, rhs):
                    if s.symbol.name != sym.name:
                        return "sub-result of symbol %s where %s expected" % (s.symbol.name, sym.name)
            else:
                return "filter called with action %r" % (action,)
        if exc is not None:
            bump(stats, "failed")
            return True
        # result returned
        if mode == "lr":
            trees = [pgx.conv(res)]
            raw = [res]
        else:
            try:
                raw = [res[i] for i in range(min(len(res), 20))]
                trees = [pgx.conv(t) for t in raw]
            except LoopError:
                trees, raw = [], []
        for t in raw:
            for key in node_keys(t, dyn_prods):
                if key not in approved:
                    return "node of dynamic production %d over children %r is in the result but no filter call approved that reduction" % key
        used = set()
        for t in trees:
            prods_in(t, used)
        reduced = {c[2].prod_id for c in calls[1:] if c[0] is REDUCE}
        shifted = {c[1].symbol.name for c in calls[1:] if c[0] is SHIFT}
        for i in range(k):
            appears = ("E", ("E", "op%d" % i, "E")) in used
            if appears and (1 + i) in dyn_prods and (1 + i) not in reduced:
                return "production %d is marked dynamic and appears in the result but the filter was never asked" % (1 + i)
            if appears and ("op%d" % i) in dyn_terms and ("op%d" % i) not in shifted:
                return "terminal op%d is marked dynamic and was shifted but the filter was never asked" % i
            if appears and rej == i and (1 + i) in dyn_prods:
                return "every reduction of production %d was rejected but it appears in the result" % (1 + i)
        if rej is None:
            try:
                r0 = plain.parse(w)
            except parglare.SyntaxError:
                return "accept-all filter accepts what the parser without filter rejects"
            if mode == "lr":
                if pgx.conv(r0) != trees[0]:
                    return "accept-all filter changes the LR result"
            else:
                if len(r0) != len(res) or [pgx.conv(r0[i]) for i in range(min(len(r0), 20))] != trees:
                    return "accept-all filter changes the GLR forest"
        bump(stats, "returned")
        return True

    h.stats = stats
    h.expect = [] if twin else ["returned", "failed"]
    h.stubs = ["realize_atomic", "get_context"]
    return h


def build_prec(params, symbolic):
    k, lefts, maxops = params["k"], params["left"], params["maxops"]
    text = grammar_text(k, [1] * k, [1] * k)
    tighter = [[False] * k for _ in range(k)]
    approved = []

    def filt(context, from_state, to_state, action, production, subresults):
        r = filt0(context, from_state, to_state, action, production, subresults)
        if action is REDUCE and r:
            approved.append((production.prod_id, spans_of(subresults)))
        return r

    def filt0(context, from_state, to_state, action, production, subresults):
        if action is None:
            return None
        op = context.token.symbol if action is SHIFT else context.token_ahead.symbol
        if not op.name.startswith("op"):
            return True
        j = int(op.name[2:])
        if action is SHIFT:
            reds = [a for a in from_state.actions[op] if a.action is REDUCE]
            if not reds:
                return True
            i = reds[0].prod.prod_id - 1
            return not tighter[i][j]
        i = production.prod_id - 1
        return tighter[i][j]

    lr = Parser(Grammar.from_string(text), prefer_shifts=False, prefer_shifts_over_empty=False, dynamic_filter=filt)
    lrt = Parser(Grammar.from_string(text), prefer_shifts=False, prefer_shifts_over_empty=False, dynamic_filter=filt, build_tree=True)
    glr = GLRParser(Grammar.from_string(text), dynamic_filter=filt)
    dyn_all = set(range(1, k + 1))
    exprs = expressions(k, maxops)
    exprs = [e for e in exprs if "(" not in e]
    stats = {}

    def body(ps):
        for a in range(k):
            for b in range(a + 1, k):
                if ps[a] == ps[b] and lefts[a] != lefts[b]:
                    raise Pre()
        for i in range(k):
            for j in range(k):
                tighter[i][j] = bool(ps[i] > ps[j] or (ps[i] == ps[j] and lefts[i]))
        with native():
            for toks in exprs:
                text2 = " ".join(toks)
                want = ref_parse(toks, tighter)
                got = lr.parse(text2)
                if got != want:
                    return "LR with the precedence filter: %r -> %r, reference %r" % (text2, got, want)
                del approved[:]
                tr = lrt.parse(text2)
                for key in node_keys(tr, dyn_all):
                    if key not in approved:
                        return "LR, %r: node of production %d over %r is in the tree but no filter call approved that reduction" % ((text2,) + key)
                del approved[:]
                f = glr.parse(text2)
                if len(f) != 1:
                    return "GLR with the precedence filter: %d trees for %r" % (len(f), text2)
                for key in node_keys(f[0], dyn_all):
                    if key not in approved:
                        return "GLR, %r: node of production %d over %r is in the tree but no filter call approved that reduction" % ((text2,) + key)
                got2 = glr.call_actions(f[0])
                if got2 != want:
                    return "GLR with the precedence filter: %r -> %r, reference %r" % (text2, got2, want)
        bump(stats, "orderings")
        return True

    if k == 2:
        def h(p0: int, p1: int):
            return body([p0, p1])
    else:
        def h(p0: int, p1: int, p2: int):
            return body([p0, p1, p2])
    h.stats = stats
    h.expect = ["orderings"]
    h.stubs = ["realize_atomic", "get_context"]
    return h
