"""C01 - GLR accepts exactly the grammar's language and returns only valid derivations."""
import parglare
from parglare import GLRParser, Grammar
from parglare.exceptions import LoopError
from parglare.glr import Parent

from vp import corpus, pgx, refcfg
from vp.symx import Pre, build_guard

from .common import TABLES, bump, excluded_inputs, glr_build, length_of, norm, norm_in, selfcheck_oracle, spec_from_params

INFO = {
    "level": "other",
    "explanation": "Bounded symbolic execution (CrossHair path engine + z3) of the real GLRParser.parse on a symbolic "
    "input string w, len(w) <= N, every character an arbitrary code point.  On every path: acceptance == "
    "reference Earley recogniser; only parglare.SyntaxError may be raised; every SPPF node is locally a production "
    "application over matching children; forests with <= K trees are enumerated and each tree checked whole "
    "(root, productions, leaves == tokens in order).  Verdict per case requires path-tree exhaustion.",
    "bounds": {
        "quick": {"N": 4, "K": 64, "grammars": "GF-shapes subset + stratified GF-tiny(3), tables LALR and SLR"},
        "thorough": {"N": "5 (shapes) / 4 (all GF-tiny(3), 400 fixed GF-tiny(4), 600 fixed GF-tiny(3) with RHS length 3)", "K": 64},
    },
    "outside": "inputs longer than N; grammars outside the enumerated families; terminal priorities; regex terminals",
    "assumptions": [
        "parglare.exceptions.get_context stubbed (message rendering is C10's subject)",
        "parglare classes marked realize-atomic for the engine",
        "reference recogniser refcfg.Earley (validated against brute-force enumeration at start-up)",
    ],
}

QUICK_SHAPES = [
    "leftrec", "midrec", "ambig-binop", "ambig-concat-null", "cyclic-unit", "prop-c03", "prop-c05",
    "hidden-left", "hidden-right", "known-c02", "nullable-chain", "two-nullables", "lr2", "lr1-not-lalr",
    "lex-a-aa", "lex-a-ab-b", "lex-prefix", "paren", "rr-conflict", "right-nullable", "reduce-many-empty",
    "cyclic-null", "deep-unit-cycle", "hidden-left-2", "lex-alt", "nullable-rhs3", "nullable-tails", "glr-revisit", "g8", "glr-cyclic-nested", "lalr-late-widening", "twice-same-nt", "nullable-chain-rec", "nullable-tail-alt", "unit-chain-empty",
]


def universe():
    """Everything any tier/seed can select (for the authoring-time sweep of known findings)."""
    return [(g, 5) for g in corpus.shapes()] + [(g, 5) for g in corpus.gf_tiny(3)] + [(g, 4) for g in corpus.tiny4_fixed()] + [
        (g, 4) for g in corpus.tiny3x3_fixed()]


def cases(tier, seed):
    out = []
    if tier == "quick":
        gs = [corpus.shape(n) for n in QUICK_SHAPES]
        gs += corpus.stratified(corpus.gf_tiny(3), 16, seed)
        N = 4
        for g in gs:
            for tb in ("LALR", "SLR"):
                out.append(_case(g, tb, N))
    else:
        for g in corpus.shapes():
            for tb in ("LALR", "SLR"):
                out.append(_case(g, tb, 5, budget=1500))
        for g in corpus.gf_tiny(3):
            out.append(_case(g, "LALR", 4))
        for g in corpus.stratified(corpus.gf_tiny(3), 120, seed):
            out.append(_case(g, "SLR", 4))
        for g in corpus.tiny4_fixed():
            out.append(_case(g, "LALR", 4))
        for g in corpus.tiny3x3_fixed():
            out.append(_case(g, "LALR", 4))
    # refutation twin
    g = corpus.shape("leftrec")
    tw = _case(g, "LALR", 3)
    tw["name"] = "twin:" + tw["name"]
    tw["params"]["twin"] = "ba"
    tw["expect_refuted"] = True
    out.append(tw)
    return out


def _case(g, tb, N, budget=600):
    return {
        "name": "%s|%s|N=%d" % (g.name, tb, N),
        "params": {"grammar": g.short(), "gname": g.name, "tables": tb, "N": N, "K": 64},
        "budget_s": budget,
    }


def build(params, symbolic):
    spec = spec_from_params(params)
    N, K = params["N"], params["K"]
    parser = glr_build(spec, params["tables"])
    if symbolic:
        selfcheck_oracle(spec, min(N, 4))
    skip = [] if params.get("no_skip") else excluded_inputs("C01", spec.short())
    twin = params.get("twin")
    stats = {}

    def h(w: str):
        n = length_of(w, N)
        try:
            forest = parser.parse(w)
            acc = True
        except parglare.SyntaxError:
            acc = False
        lex, ey = refcfg.analyse(spec, w, n)
        expected = ey.accepted
        nw = norm(w, n, spec.ws)
        if skip and norm_in(nw, skip):
            raise Pre()
        if twin is not None and norm_in(nw, [twin]):
            expected = not expected
        if acc != expected:
            return "acceptance mismatch: GLRParser %s, reference %s" % (acc, expected)
        if not acc:
            bump(stats, "rejected")
            return True
        bump(stats, "accepted")
        # --- every SPPF node is locally valid
        prodset = set(spec.prods)
        for par, poss in pgx.sppf_nodes(forest):
            if poss.is_term():
                name = poss.symbol.name
                s, e = par.start_position, par.end_position
                if name not in spec.terms or lex.match(name, s) != e:
                    return "SPPF leaf %s[%s,%s] does not match the input" % (name, s, e)
                if par.head.symbol.name != name:
                    return "SPPF leaf %s linked under state symbol %s" % (name, par.head.symbol.name)
            else:
                p = poss.production
                lhs, rhs = p.symbol.name, pgx.rhs_names(p)
                if (lhs, rhs) not in prodset:
                    return "SPPF node applies unknown production %s -> %s" % (lhs, rhs)
                if par.head.symbol.name != lhs:
                    return "SPPF node %s linked under state symbol %s" % (lhs, par.head.symbol.name)
                ch = poss.children
                if len(ch) != len(rhs):
                    return "SPPF node %s has %d children for rhs %s" % (lhs, len(ch), rhs)
                for c, sym in zip(ch, rhs):
                    if not isinstance(c, Parent) or c.head.symbol.name != sym:
                        return "SPPF child %r where %s expected" % (c, sym)
        if forest.result.head.symbol.name != spec.start:
            return "forest root symbol is %s" % forest.result.head.symbol.name
        # --- enumerate when finite and small
        try:
            cnt = len(forest)
        except LoopError:
            bump(stats, "cyclic_forest")
            return True
        if cnt <= K:
            bump(stats, "enumerated")
            for i in range(cnt):
                t = pgx.conv(forest[i])
                why = pgx.check_tree(spec, t, w, n, lex, end=n)
                if why:
                    return "tree %d of %d invalid: %s" % (i, cnt, why)
        return True

    h.stats = stats
    h.expect = ["accepted", "rejected"] if twin is None else []
    h.stubs = ["realize_atomic", "get_context"]
    return h

MANIFEST = {
    "level_text": "Bounded symbolic execution of the real GLRParser.parse: for every grammar of the stated families "
    "and table kind, z3 decides every branch on a symbolic input of length <= N (any code points, hence any layout), "
    "the path tree is exhausted, and on each path acceptance is compared with an independent Earley recogniser and "
    "every SPPF node / enumerated tree is checked to be a derivation.  Stronger than sampling inside the bound, "
    "silent outside it.",
    "level_note": "Trusted: CrossHair's str/int proxies and z3; the reference recogniser (cross-validated against a "
    "brute-force enumerator on every run); get_context stub; grammar families are enumerated, not symbolic. "
    "A refutation twin (oracle deliberately wrong on one input) must be refuted and replay natively on every run.",
}
