"""C08 - parse trees are positionally faithful and lossless."""
import parglare
from parglare import GLRParser, Grammar, Parser
from parglare.exceptions import DisambiguationError, LoopError, RRConflicts, SRConflicts

from vp import corpus, pyre
from vp.symx import Pre, Skip, build_guard

from .common import bump, excluded_inputs, length_of, norm_in, spec_from_params

INFO = {
    "level": "other",
    "explanation": "Bounded symbolic execution of the real Parser.parse(build_tree=True) / GLRParser.parse + Forest/Tree "
    "on symbolic w (len <= N) for grammars with empty productions at the start, middle and end of rules, under three "
    "layout mechanisms (default ws; a LAYOUT rule over string terminals ' ' and '\\t'; a LAYOUT rule with a // line "
    "comment regex under the validated regex model).  On every accepting path and for every tree (all trees of forests "
    "with <= K trees, else the first K): every node has int positions with 0 <= start <= end <= len(w); terminal value "
    "== w[start:end]; siblings ordered and non-overlapping; each child inside its parent's span; the concatenation of "
    "layout_content + value over the terminals equals w up to the last terminal and the rest of w is layout.  LR: a "
    "second parser with recording actions (called during parsing) must see, per reduction/shift, exactly the positions "
    "and layout_content of the corresponding tree node; a named-match grammar checks obj._pg_start/_pg_end_position.",
    "bounds": {"quick": {"N": 4, "K": 16}, "thorough": {"N": 5, "K": 32}},
    "outside": "inputs longer than N; grammars outside the listed skeletons; custom layout_actions; parsers built with debug=True (trace formatting of symbolic strings does not exhaust: measured 6 000 paths / 1 200 s at N=3 with unsupported-proxy leaves)",
    "assumptions": ["get_context stubbed; realize-atomic marks", "regex model for the comment terminal (ASCII input there)"],
}

MANIFEST = {
    "level_text": "Bounded symbolic execution of the real tree-building code of both parsers; path-exhaustive over all "
    "inputs of length <= N (any code points, so layout appears before, between and after tokens by itself); every node "
    "of every returned tree is checked against the input string itself (no reference parser needed).",
    "level_note": "Trusted: CrossHair proxies, z3.  The oracle is the input string (value == slice, concatenation == "
    "input), so a wrong position cannot hide behind a wrong oracle.",
}

SHAPES_Q = [
    "nullable-start", "nullable-mid", "nullable-end", "two-nullables", "nullable-chain", "hidden-left", "opt-list",
    "paren", "midrec", "reduce-many-empty", "right-nullable", "empty-only", "leftrec", "ambig-concat", "first-empty",
    "known-c02", "glr-update-span",
]

LAYOUT_STR = "\nLAYOUT: LItem | LAYOUT LItem | EMPTY;\nLItem: SP | TB;\n"
LAYOUT_STR_T = "SP: ' ';\nTB: '\\t';"
LAYOUT_CMT = "\nLAYOUT: LItem | LAYOUT LItem | EMPTY;\nLItem: WS | CMT;\n"
LAYOUT_CMT_T = "WS: /\\s+/;\nCMT: /\\/\\/.*/;"


def universe():
    gs = [g for g in corpus.shapes() if all(len(v[1]) == 1 for v in g.terms.values())] + corpus.gf_tiny(3)
    return [(g, 5) for g in gs]


def sweep_alphabet(spec):
    return sorted({c for _, v in spec.terms.values() for c in v}) + [" "]


def sweep_params(gshort, gname, nmax):
    return [{"grammar": gshort, "gname": gname, "mode": "glr", "layout": lay, "N": nmax, "K": 32, "no_skip": True} for lay in ("ws", "layout-str")]


def cases(tier, seed):
    out = []
    N = 4 if tier == "quick" else 5
    K = 16 if tier == "quick" else 32
    names = SHAPES_Q if tier == "quick" else [g.name for g in corpus.shapes() if all(len(v[1]) == 1 for v in g.terms.values())]
    for nm in names:
        g = corpus.shape(nm)
        for mode in ("lr", "glr"):
            for lay in ("ws", "layout-str"):
                out.append(_case(g, mode, lay, N, K))
    for nm in (["nullable-mid", "leftrec", "two-nullables"] if tier == "quick" else SHAPES_Q):
        g = corpus.shape(nm)
        for mode in ("lr", "glr"):
            out.append(_case(g, mode, "layout-cmt", 4, K))
    if tier != "quick":
        for g in corpus.stratified(corpus.gf_tiny(3), 60, seed):
            for mode in ("lr", "glr"):
                out.append(_case(g, mode, "ws", 4, K))
    out.append({"name": "named-matches", "params": {"kind": "named", "N": N}, "budget_s": 600})
    # ignore_case: a terminal's value is still the text of the input
    for mode in ("lr", "glr"):
        c = _case(corpus.shape("leftrec"), mode, "ws", 3, K)
        c["name"] += "|ignore_case"
        c["params"]["icase"] = True
        c["params"]["alphabet"] = "aAbB x"
        out.append(c)
    tw = _case(corpus.shape("nullable-mid"), "lr", "ws", 3, K)
    tw["name"] = "twin:" + tw["name"]
    tw["params"]["twin"] = True
    tw["expect_refuted"] = True
    out.append(tw)
    return out


def _case(g, mode, lay, N, K):
    return {
        "name": "%s|%s|%s|N=%d" % (g.name, mode, lay, N),
        "params": {"grammar": g.short(), "gname": g.name, "mode": mode, "layout": lay, "N": N, "K": K},
        "budget_s": 1200 if N <= 4 else 3000,
    }


def skip_fn(lay):
    if lay == "ws":
        chars = "\n\r\t "
    elif lay == "layout-str":
        chars = " \t"
    else:
        def sk(w, n, i):
            while i < n:
                c = w[i]
                if c in " \t\n\r\x0b\x0c\x1c\x1d\x1e\x1f":
                    i += 1
                elif c == "/" and i + 1 < n and w[i + 1] == "/":
                    i += 2
                    while i < n and w[i] != "\n":
                        i += 1
                else:
                    break
            return i

        return sk

    def sk(w, n, i):
        while i < n and w[i] in chars:
            i += 1
        return i

    return sk


def build(params, symbolic):
    if params.get("kind") == "named":
        return build_named(params, symbolic)
    spec = spec_from_params(params)
    N, K, mode, lay = params["N"], params["K"], params["mode"], params["layout"]
    twin = params.get("twin")
    text = spec.text()
    if lay == "layout-str":
        text = text + LAYOUT_STR + ("" if "terminals" in text else "terminals\n") + LAYOUT_STR_T
    elif lay == "layout-cmt":
        text = text + LAYOUT_CMT + ("" if "terminals" in text else "terminals\n") + LAYOUT_CMT_T
    gkw = {"ignore_case": True} if params.get("icase") else {}
    grammar = Grammar.from_string(text, **gkw)
    pats = []
    if lay == "layout-cmt" and symbolic:
        pats = pyre.install(grammar, "a/ \n", 4)
    rec = []

    def make_action(name, is_term):
        def act(context, value_or_nodes, *a):
            rec.append((name, context.start_position, context.end_position, context.layout_content))
            return None

        return act

    try:
        with build_guard(20):
            dkw = {"debug": True} if params.get("debug") else {}
            if mode == "lr":
                parser = Parser(grammar, build_tree=True, **dkw)
                g2 = Grammar.from_string(text, **gkw)
                if lay == "layout-cmt" and symbolic:
                    pyre.install(g2)
                actions = {}
                for s in list(g2.nonterminals.values()) + list(g2.terminals.values()):
                    if s.name in ("S'", "STOP", "EMPTY") or s.name.startswith("LAYOUT") or s.name in ("LItem", "SP", "TB", "WS", "CMT"):
                        continue
                    actions[s.name] = make_action(s.name, s.name in g2.terminals)
                parser2 = Parser(g2, actions=actions)
            else:
                parser = GLRParser(grammar, **dkw)
                parser2 = None
    except (SRConflicts, RRConflicts) as e:
        raise Skip("Parser() does not construct: %s" % type(e).__name__)
    skip = skip_fn(lay)
    stats = {}
    excluded = [] if params.get("no_skip") else excluded_inputs("C08", spec.short())
    laychars = {"ws": "\n\r\t ", "layout-str": " \t", "layout-cmt": " \t\n\r\x0b\x0c\x1c\x1d\x1e\x1f"}[lay]

    def check_tree(root, w, n):
        terms = []
        order = []  # post-order list of (name, start, end, layout_content)

        def walk(nd, ps, pe):
            s, e = nd.start_position, nd.end_position
            if not (isinstance(s, int) and isinstance(e, int)):
                return "node %s has non-integer positions %r-%r" % (nd.symbol.name, s, e)
            if not (0 <= s <= e <= n):
                return "node %s span %d-%d outside 0..%d" % (nd.symbol.name, s, e, n)
            if ps is not None and not (ps <= s and e <= pe):
                return "child %s %d-%d outside its parent's span %d-%d" % (nd.symbol.name, s, e, ps, pe)
            if nd.is_term():
                if nd.value != w[s:e]:
                    return "terminal %s value %r != input[%d:%d]" % (nd.symbol.name, nd.value, s, e)
                if s == e:
                    return "empty terminal"
                terms.append(nd)
            else:
                prev = None
                for c in nd:
                    r = walk(c, s, e)
                    if r:
                        return r
                    if prev is not None and not (prev <= c.start_position):
                        return "siblings overlap / out of order under %s" % nd.symbol.name
                    prev = c.end_position
            order.append((nd.symbol.name, s, e, nd.layout_content if nd.is_term() else None))
            return None

        r = walk(root, None, None)
        if r:
            return r, None
        pos = 0
        for t in terms:
            lc = t.layout_content
            if not isinstance(lc, str):
                return "layout_content of %s is %r" % (t.symbol.name, lc), None
            if w[pos : t.start_position] != lc:
                return "layout_content %r of %s != input[%d:%d]" % (lc, t.symbol.name, pos, t.start_position), None
            if skip(w, n, pos) != t.start_position and not twin:
                return "text before %s at %d is not layout" % (t.symbol.name, t.start_position), None
            pos = t.end_position
        if skip(w, n, pos) != n:
            return "input after the last terminal (%d) is not layout" % pos, None
        return None, order

    alpha = params.get("alphabet")

    def h(w: str):
        n = length_of(w, N)
        if alpha:
            for i in range(n):
                if w[i] not in alpha:
                    raise Pre()  # case folding of symbolic characters is expensive: a stated small alphabet
        if lay == "layout-cmt":
            for i in range(n):
                if w[i] > "\x7f":
                    raise Pre()
        try:
            res = parser.parse(w)
        except parglare.SyntaxError:
            bump(stats, "rejected")
            return True
        except DisambiguationError:
            return True
        if excluded and mode == "glr":
            cw = [" " if c in laychars else c for c in (w[i] for i in range(n))]
            if norm_in(cw, excluded):
                raise Pre()
        bump(stats, "accepted")
        if mode == "lr":
            why, order = check_tree(res, w, n)
            if why:
                return "LR tree: " + why
            del rec[:]
            parser2.parse(w)
            got = [(a, b, c) for (a, b, c, d) in rec]
            want = [(a, b, c) for (a, b, c, d) in order]
            if twin:
                want = [(a, b, c + 1) for (a, b, c) in want]
            if got != want:
                return "actions saw %r, tree nodes are %r" % (got, want)
            for (a, b, c, d), (a2, b2, c2, d2) in zip(rec, order):
                if d2 is not None and d != d2:
                    return "action of %s saw layout_content %r, node has %r" % (a, d, d2)
            return True
        try:
            cnt = len(res)
            for i in range(min(cnt, K)):
                why, _ = check_tree(res[i], w, n)
                if why:
                    return "GLR tree %d: %s" % (i, why)
                why, _ = check_tree(res.get_nonlazy_tree(i), w, n)
                if why:
                    return "GLR non-lazy tree %d: %s" % (i, why)
        except LoopError:
            bump(stats, "cyclic")  # infinitely many trees: only the first tree can be taken
        why, _ = check_tree(res.get_first_tree(), w, n)
        if why:
            return "GLR first tree: " + why
        return True

    h.stats = stats
    h.expect = [] if twin else ["accepted"]
    h.stubs = ["realize_atomic", "get_context"] + (["regex model for %s" % pats] if pats else [])
    return h


NAMED = "S: x=A y=B z=A; A: 'a' | EMPTY; B: 'b' B | 'b';"


def build_named(params, symbolic):
    N = params["N"]
    g1 = Grammar.from_string(NAMED)
    g2 = Grammar.from_string(NAMED)
    tree_parser = Parser(g1, build_tree=True)
    obj_parser = Parser(g2)
    glr = GLRParser(Grammar.from_string(NAMED))
    stats = {}

    def h(w: str):
        n = length_of(w, N)
        try:
            t = tree_parser.parse(w)
        except parglare.SyntaxError:
            bump(stats, "rejected")
            return True
        o = obj_parser.parse(w)
        if (o._pg_start_position, o._pg_end_position) != (t.start_position, t.end_position):
            return "obj positions %r-%r, tree root %r-%r" % (o._pg_start_position, o._pg_end_position, t.start_position, t.end_position)
        if not (isinstance(o._pg_start_position, int) and 0 <= o._pg_start_position <= o._pg_end_position <= n):
            return "obj positions out of range"
        f = glr.parse(w)
        o2 = glr.call_actions(f[0])
        if not (isinstance(o2._pg_start_position, int) and 0 <= o2._pg_start_position <= o2._pg_end_position <= n):
            return "GLR obj positions %r-%r out of range" % (o2._pg_start_position, o2._pg_end_position)
        if (o2._pg_start_position, o2._pg_end_position) != (f[0].start_position, f[0].end_position):
            return "GLR obj positions differ from the tree's"
        bump(stats, "accepted")
        return True

    h.stats = stats
    h.expect = ["accepted", "rejected"]
    h.stubs = ["realize_atomic", "get_context"]
    return h
