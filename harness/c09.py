"""C09 - all ways of running semantic actions give the same result."""
import parglare
from parglare import GLRParser, Grammar, Parser

from vp import refcfg
from vp.gspec import GSpec
from vp.symx import Pre, Skip

from .common import bump, length_of

INFO = {
    "level": "other",
    "explanation": "Bounded symbolic execution of the real action machinery (Parser._call_shift_action/_call_reduce_action, "
    "Parser.call_actions, GLRParser + call_actions on the single forest tree, parglare.actions built-ins behind + * ? "
    "and separators, Grammar._resolve_actions) on symbolic w (len <= N) for hand-written skeletons with generated action "
    "tables (per-rule callables, per-alternative lists, named matches = and ?= at different positions, empty "
    "alternatives, terminal actions, no-action rules).  On every accepting path: actions-during-parse == build_tree + "
    "call_actions == GLR + call_actions (call_actions_during_tree_build must call the same actions in the same order with the same arity), and all equal the result a "
    "reference computes from the reference derivation tree of the hand-desugared BNF with the documented semantics "
    "(action gets the sub-results of its RHS in order, named matches bound, right alternative's action; default = "
    "nested list; x+ flat list, x* possibly empty list, x? match or None, separators dropped).",
    "bounds": {"quick": {"N": 5, "skeletons": 10}, "thorough": {"N": 6, "skeletons": 10}},
    "outside": "inputs longer than N; action tables other than the listed skeletons; actions with side effects on the parser",
    "assumptions": ["get_context stubbed; realize-atomic marks", "reference derivation from refcfg on the hand-desugared grammar"],
}

MANIFEST = {
    "level_text": "Bounded symbolic execution of the real action-calling code on all inputs of length <= N for each "
    "skeleton; four evaluation routes are compared with each other and with a reference evaluation of the reference "
    "derivation.",
    "level_note": "Trusted: CrossHair proxies, z3, the reference evaluator (documented semantics of the built-ins, 40 lines), "
    "hand-desugared grammars.  The skeleton list is the program bound.",
}

# tags: ('u', rule, alt) user action / ('d',) default nested list / built-ins
SK = {
    "expr-lists": {
        "text": "E: E '+' T | T; T: T '*' F | F; F: '(' E ')' | 'n';",
        "prods": [("E", ("E", "+", "T"), ("u", "E", 0)), ("E", ("T",), ("u", "E", 1)), ("T", ("T", "*", "F"), ("u", "T", 0)),
                  ("T", ("F",), ("u", "T", 1)), ("F", ("(", "E", ")"), ("u", "F", 0)), ("F", ("n",), ("u", "F", 1))],
        "user": {"E": "list", "T": "list", "F": "list"},
    },
    "expr-mixed": {
        "text": "E: E '+' T | T; T: T '*' F | F; F: '(' E ')' | 'n';",
        "prods": [("E", ("E", "+", "T"), ("u", "E", None)), ("E", ("T",), ("u", "E", None)), ("T", ("T", "*", "F"), ("d",)),
                  ("T", ("F",), ("d",)), ("F", ("(", "E", ")"), ("u", "F", 0)), ("F", ("n",), ("u", "F", 1))],
        "user": {"E": "rule", "F": "list"},
        "term_actions": ["n", "+"],
    },
    "named": {
        "text": "S: 'l' first=A rest=B | 'r' rest=B first=A | 'm' A B; A: 'a'; B: 'b' | EMPTY;",
        "prods": [("S", ("l", "A", "B"), ("u", "S", 0)), ("S", ("r", "B", "A"), ("u", "S", 1)), ("S", ("m", "A", "B"), ("u", "S", 2)),
                  ("A", ("a",), ("d",)), ("B", ("b",), ("u", "B", 0)), ("B", (), ("u", "B", 1))],
        "user": {"S": "list", "B": "list"},
        "named": {("S", 0): {1: ("first", "="), 2: ("rest", "=")}, ("S", 1): {1: ("rest", "="), 2: ("first", "=")}},
    },
    "named-bool": {
        "text": "S: 'l' flag?=A rest=B | 'r' rest=B flag?=O; A: 'a'; B: 'b' | EMPTY; O: 'a' | EMPTY;",
        "prods": [("S", ("l", "A", "B"), ("u", "S", None)), ("S", ("r", "B", "O"), ("u", "S", None)),
                  ("A", ("a",), ("d",)), ("B", ("b",), ("d",)), ("B", (), ("d",)), ("O", ("a",), ("d",)), ("O", (), ("d",))],
        "user": {"S": "rule"},
        "named": {("S", 0): {1: ("flag", "?="), 2: ("rest", "=")}, ("S", 1): {1: ("rest", "="), 2: ("flag", "?=")}},
    },
    "plus-star": {
        "text": "S: 'a'+ 'c' B*; B: 'b';",
        "prods": [("S", ("a_1", "c", "B_0"), ("d",)), ("a_1", ("a_1", "a"), ("collect",)), ("a_1", ("a",), ("one",)),
                  ("B_0", ("B_1",), ("zero_some",)), ("B_0", (), ("zero_none",)), ("B_1", ("B_1", "B"), ("collect",)),
                  ("B_1", ("B",), ("one",)), ("B", ("b",), ("d",))],
        "user": {},
    },
    "separators": {
        "text": "S: A+[comma] ';' B*[comma]; A: 'a'; B: 'b';\nterminals\ncomma: ',';",
        "prods": [("S", ("A_1", ";", "B_0"), ("u", "S", None)), ("A_1", ("A_1", "comma", "A"), ("collect_sep",)), ("A_1", ("A",), ("one",)),
                  ("B_0", ("B_1",), ("zero_some",)), ("B_0", (), ("zero_none",)), ("B_1", ("B_1", "comma", "B"), ("collect_sep",)),
                  ("B_1", ("B",), ("one",)), ("A", ("a",), ("d",)), ("B", ("b",), ("u", "B", None))],
        "user": {"S": "rule", "B": "rule"},
        "terms": {"comma": ","},
    },
    "optional": {
        "text": "S: 'a'? B 'c'?; B: 'b' | 'b' B;",
        "prods": [("S", ("a_opt", "B", "c_opt"), ("u", "S", None)), ("a_opt", ("a",), ("opt_some",)), ("a_opt", (), ("opt_none",)),
                  ("c_opt", ("c",), ("opt_some",)), ("c_opt", (), ("opt_none",)), ("B", ("b",), ("u", "B", 0)), ("B", ("b", "B"), ("u", "B", 1))],
        "user": {"S": "rule", "B": "list"},
    },
    "empty-alts": {
        "text": "S: A S | EMPTY; A: 'a' | 'b';",
        "prods": [("S", ("A", "S"), ("u", "S", 0)), ("S", (), ("u", "S", 1)), ("A", ("a",), ("u", "A", 0)), ("A", ("b",), ("u", "A", 1))],
        "user": {"S": "list", "A": "list"},
        "term_actions": ["a"],
    },
    "no-actions": {
        "text": "S: A B | A; A: 'a' A | 'a'; B: 'b' 'c' | 'b';",
        "prods": [("S", ("A", "B"), ("d",)), ("S", ("A",), ("d",)), ("A", ("a", "A"), ("d",)), ("A", ("a",), ("d",)),
                  ("B", ("b", "c"), ("d",)), ("B", ("b",), ("d",))],
        "user": {},
    },
    "opt-nonterm-sep": {
        "text": "S: Item*[semi] End?; Item: 'a' 'b'? ; End: 'e';\nterminals\nsemi: ';';",
        "prods": [("S", ("Item_0", "End_opt"), ("d",)), ("Item_0", ("Item_1",), ("zero_some",)), ("Item_0", (), ("zero_none",)),
                  ("Item_1", ("Item_1", "semi", "Item"), ("collect_sep",)), ("Item_1", ("Item",), ("one",)),
                  ("End_opt", ("End",), ("opt_some",)), ("End_opt", (), ("opt_none",)), ("Item", ("a", "b_opt"), ("u", "Item", None)),
                  ("b_opt", ("b",), ("opt_some",)), ("b_opt", (), ("opt_none",)), ("End", ("e",), ("d",))],
        "user": {"Item": "rule"},
        "terms": {"semi": ";"},
    },
    "split-rule": {
        "text": "S: E T | T; E: 'a'; T: 'x' | 'y' E; E: 'b' 'c' | 'd';",
        "prods": [("S", ("E", "T"), ("u", "S", 0)), ("S", ("T",), ("u", "S", 1)), ("E", ("a",), ("u", "E", 0)), ("T", ("x",), ("u", "T", 0)),
                  ("T", ("y", "E"), ("u", "T", 1)), ("E", ("b", "c"), ("u", "E", 1)), ("E", ("d",), ("u", "E", 2))],
        "user": {"S": "list", "E": "list", "T": "list"},
    },
    # element actions returning falsy values (0, '', []) at first and later positions, with and without separator
    "falsy-elements": {
        "text": "S: Item+[comma] ';' Item* ; Item: 'a' | 'z' | 'e';\nterminals\ncomma: ',';",
        "prods": [("S", ("Item_1_comma", ";", "Item_0"), ("d",)), ("Item_1_comma", ("Item_1_comma", "comma", "Item"), ("collect_sep",)),
                  ("Item_1_comma", ("Item",), ("one",)), ("Item_0", ("Item_1",), ("zero_some",)), ("Item_0", (), ("zero_none",)),
                  ("Item_1", ("Item_1", "Item"), ("collect",)), ("Item_1", ("Item",), ("one",)),
                  ("Item", ("a",), ("falsy", 1)), ("Item", ("z",), ("falsy", 0)), ("Item", ("e",), ("falsy", ""))],
        "user": {},
        "falsy": {"Item": [1, 0, ""]},
        "maxN": 4,
        "terms": {"comma": ","},
    },
}


def cases(tier, seed):
    out = []
    N = 5 if tier == "quick" else 6
    for nm in SK:
        n_ = min(N, SK[nm].get("maxN", N)) if tier == "quick" else N
        out.append({"name": "%s|N=%d" % (nm, n_), "params": {"skel": nm, "N": n_}, "budget_s": 1500 if tier == "quick" else 6000})
    out.append({"name": "twin:named", "params": {"skel": "named", "N": 3, "twin": True}, "expect_refuted": True, "budget_s": 300})
    return out


def make_spec(sk):
    terms = {}
    nts = {l for l, _, _ in sk["prods"]}
    for l, r, _ in sk["prods"]:
        for s in r:
            if s not in nts:
                terms[s] = ("s", sk.get("terms", {}).get(s, s))
    return GSpec([(l, r) for l, r, _ in sk["prods"]], terms)


def make_actions(sk, calls):
    prods_of = {}
    for l, r, tag in sk["prods"]:
        prods_of.setdefault(l, []).append(tag)

    def mk(rule, alt):
        def act(context, nodes, **kw):
            res = ("R", rule, alt, tuple(nodes), tuple(sorted(kw.items())))
            calls.append(res)
            return res

        return act

    acts = {}
    for rule, mode in sk["user"].items():
        if mode == "rule":
            acts[rule] = mk(rule, None)
        else:
            acts[rule] = [mk(rule, k) for k in range(len(prods_of[rule]))]
    for rule, vals in sk.get("falsy", {}).items():
        acts[rule] = [(lambda _, n, _v=v: _v) for v in vals]
    for t in sk.get("term_actions", []):
        def tact(context, value, _t=t):
            res = ("T", _t, value)
            calls.append(res)
            return res

        acts[t] = tact
    return acts


def ref_eval(sk, spec, tree, w):
    tagof = {(l, r): t for l, r, t in sk["prods"]}
    ta = set(sk.get("term_actions", []))

    def ev(t):
        if t[0] == "T":
            val = w[t[2] : t[3]]
            if t[1] in ta:
                return ("T", t[1], val)
            return val
        _, lhs, rhs, ch = t
        sub = [ev(c) for c in ch]
        tag = tagof[(lhs, rhs)]
        k = tag[0]
        if k == "u":
            named = sk.get("named", {}).get((tag[1], [i for i, (l2, r2, t2) in enumerate(p for p in sk["prods"] if p[0] == lhs) if r2 == rhs][0]), {})
            kw = {}
            for pos, (name, op) in named.items():
                kw[name] = sub[pos] if op == "=" else bool(sub[pos])
            return ("R", tag[1], tag[2], tuple(sub), tuple(sorted(kw.items())))
        if k == "falsy":
            return tag[1]
        if k == "d":
            return sub[0] if len(sub) == 1 else sub
        if k == "collect":
            return list(sub[0]) + [sub[1]]
        if k == "collect_sep":
            return list(sub[0]) + [sub[2]]
        if k == "one":
            return [sub[0]]
        if k == "zero_some":
            return sub[0]
        if k == "zero_none":
            return []
        if k == "opt_some":
            return sub[0]
        if k == "opt_none":
            return None
        raise AssertionError(tag)

    return ev(tree)


def build(params, symbolic):
    sk = SK[params["skel"]]
    N = params["N"]
    twin = params.get("twin")
    spec = make_spec(sk)
    calls1, calls2, calls3, calls4 = [], [], [], []

    def used_grammar():
        """A Grammar object on which another parser with a LARGER action table was built before: the action set given to
        a parser is what counts, nothing may be left over from an earlier parser on the same grammar."""
        g = Grammar.from_string(sk["text"])
        if not make_actions(sk, []):
            # a parser given NO action table does not touch the actions stored on the grammar's symbols (documented design:
            # actions live on the Grammar); sharing a Grammar between parsers with and without tables is outside the claim
            return g
        big = make_actions(sk, [])
        stale = lambda _, n, *a: "<stale action of an earlier parser>"  # noqa
        for sym in list(g.nonterminals.values()) + list(g.terminals.values()):
            if sym.name in ("S'", "STOP", "EMPTY") or sym.name in big:
                continue
            if sym.name in g.nonterminals and len(sym.productions) and sym.action_name is None:
                big[sym.name] = stale
            elif sym.name in g.terminals:
                big[sym.name] = stale
        Parser(g, actions=big)
        return g

    p1 = Parser(used_grammar(), actions=make_actions(sk, calls1))
    p2 = Parser(used_grammar(), build_tree=True, actions=make_actions(sk, calls2))
    p2b = Parser(used_grammar(), build_tree=True, call_actions_during_tree_build=True, actions=make_actions(sk, calls3))
    p3 = GLRParser(used_grammar(), actions=make_actions(sk, calls4))
    stats = {}

    def h(w: str):
        n = length_of(w, N)
        del calls1[:], calls2[:], calls3[:], calls4[:]
        try:
            r1 = p1.parse(w)
        except parglare.SyntaxError:
            bump(stats, "rejected")
            return True
        bump(stats, "accepted")
        lex, ey = refcfg.analyse(spec, w, n)
        if not ey.accepted:
            return "LR parser accepted but the desugared reference grammar rejects (C13/C04 subject; harness grammar mismatch?)"
        kind, trees, _ = refcfg.derivations(spec, lex, ey, limit=4)
        if kind != "fin" or len(trees) != 1:
            return "reference grammar is ambiguous here (%s) - skeleton must be unambiguous" % kind
        want = ref_eval(sk, spec, trees[0], w)
        if twin and isinstance(want, tuple) and want[0] == "R" and want[4]:
            want = want[:4] + (tuple(reversed(want[4])),)
        if r1 != want:
            return "actions during parsing gave %r, reference %r" % (r1, want)
        tree = p2.parse(w)
        if calls2:
            return "build_tree=True called actions during parsing"
        r2 = p2.call_actions(tree)
        if r2 != want:
            return "build_tree + call_actions gave %r, reference %r" % (r2, want)
        p2b.parse(w)
        # results are discarded in this mode (arguments are tree nodes by design): same actions, same order, same arity
        shape = lambda cs: [(c[0], c[1], c[2], len(c[3]), tuple(k for k, _ in c[4])) if c[0] == "R" else c for c in cs]  # noqa
        if shape(calls3) != shape(calls1):
            return "call_actions_during_tree_build called %r, on-the-fly parsing %r" % (shape(calls3), shape(calls1))
        forest = p3.parse(w)
        if len(forest) == 1:
            r3 = p3.call_actions(forest[0])
            if r3 != want:
                return "GLR + call_actions gave %r, reference %r" % (r3, want)
            bump(stats, "glr_single")
        return True

    h.stats = stats
    h.expect = [] if twin else ["accepted", "rejected"]
    h.stubs = ["realize_atomic", "get_context"]
    return h
