"""C03 - the forest packs each derivation once; counting and indexing are consistent."""
import parglare
from parglare import GLRParser, Grammar
from parglare.exceptions import LoopError
from parglare.glr import Parent
from parglare.trees import Tree

from vp import corpus, pgx, refcfg
from vp.gspec import parse_short
from vp.symx import Pre, Skip

from .common import bump, excluded_inputs, glr_build, length_of, norm, norm_in, selfcheck_oracle, spec_from_params

INFO = {
    "level": "other",
    "explanation": "Three harness kinds on the real Forest/Tree/LazyTree/Parent code.  (A) symbolic input w "
    "(len <= N) through the real GLR parser: len(forest) == forest.solutions == number of distinct enumerated trees, "
    "no Parent holds two identical alternatives, forest.ambiguities == number of Parents with > 1 distinct "
    "alternative, lazy == non-lazy == repeated access, get_first_tree() == forest[0], indices len and len+1 raise "
    "IndexError, LoopError only when the reference finds infinitely many derivations.  (B) concrete larger forests "
    "(up to 132 / 429 trees) with a symbolic UNBOUNDED index i: i >= len -> IndexError, i < len -> lazy == non-lazy, "
    "tree is a reference derivation, and no two index classes yield the same tree (with len == reference count this "
    "is a bijection).  (C) the mixed-radix decoding of Tree._enumerate_children and the bucket search of "
    "Tree.__init__ in isolation with symbolic unbounded weights: one non-linear integer query per assertion "
    "(decoding is a bijection; big-integer counts).",
    "bounds": {
        "quick": {"A": "N=4, K=64", "B": "forests of 14 and 42 trees, i unbounded", "C": "2-3 children / 2-3 alternatives, weights unbounded"},
        "thorough": {"A": "N=5 shapes, N=4 all GF-tiny(3)", "B": "up to 429 trees", "C": "up to 4 children"},
    },
    "outside": "inputs longer than N for (A); negative indices; forests other than the listed ones for (B); "
    "len() beyond sys.maxsize (CPython __len__ protocol limit) - forest.solutions is the big-integer count",
    "assumptions": [
        "get_context stubbed; parglare classes realize-atomic",
        "(C) builds synthetic forests out of REAL Parent/NodeNonTerm/NodeTerm objects whose cached solution counts are symbolic",
        "inputs named in known_findings.json are assumed away in the symbolic part and replayed natively",
    ],
}

MANIFEST = {
    "technique": 'bounded symbolic execution of the real forest/tree code (CrossHair engine + z3): symbolic input, unbounded symbolic forest index, unbounded symbolic weights in the index-decoding arithmetic (non-linear integer queries)',
    "level_text": "Bounded symbolic execution of the real forest code: path-exhaustive over inputs (A), over an "
    "unbounded symbolic index into concrete forests (B), and a solver proof of the index decoding arithmetic for "
    "unbounded weights within a fixed number of children (C).",
    "level_note": "Trusted: CrossHair proxies, z3 (non-linear integer queries in C: `unknown` is reported as "
    "inconclusive), the reference derivation enumerator.  Duplicate packing on the pinned tree is listed per "
    "grammar/input in known_findings.json (the suite's test_g8 pins the miscount, so it cannot be repaired).",
}

QUICK_A = [
    "leftrec", "midrec", "ambig-binop", "ambig-concat", "ambig-concat-null", "cyclic-unit", "prop-c03",
    "hidden-left", "hidden-right", "known-c02", "nullable-chain", "two-nullables", "dangling-else", "lex-a-aa",
    "lex-a-ab-b", "paren", "rr-conflict", "palindrome", "bounded-amb", "cyclic-null", "deep-unit-cycle", "g8",
    "lex-alt", "nullable-tails", "glr-revisit", "glr-cyclic-nested", "lalr-late-widening", "nullable-rhs3",
]

FORESTS = {
    "catalan14": ("S: S S | a;", "aaaaa", 14),
    "catalan42": ("S: S p S | S m S | n;", "npnmnpnmnpn", 42),
    "catalan132": ("S: S p S | S m S | n;", "npnmnpnmnpnmn", 132),
    "catalan429": ("S: S p S | S m S | n;", "npnmnpnmnpnmnpn", 429),
    "unequal": ("S: T U; T: T T | a; U: U U U | U U | b;", "aaaabbbb", None),
    "lexamb": ("S: S T | T; T: a | aa | aaa;", "aaaaaa", None),
    # single-alternative wrappers (unit productions, a bracketed group) around ambiguous sub-forests, in non-first position
    "wrapped": ("S: L e R; L: T; R: T; T: T p T | x;", "xpxpxexpxpx", 4),
    "bracketed": ("E: E p E | l E r | n;", "npnplnpnpnr", None),
}


def universe():
    out = [(g, 5) for g in corpus.shapes()]
    out += [(g, 5) for g in corpus.gf_tiny(3)]
    out += [(g, 4) for g in corpus.tiny3x3_fixed()]
    return out


def cases(tier, seed):
    out = []
    if tier == "quick":
        gs = [corpus.shape(n) for n in QUICK_A] + corpus.stratified(corpus.gf_tiny(3), 12, seed)
        for g in gs:
            out.append(_caseA(g, "LALR", 4))
        for f in ("catalan14", "catalan42", "unequal", "lexamb", "wrapped", "bracketed"):
            out.append({"name": "B:%s" % f, "params": {"kind": "B", "forest": f}, "budget_s": 900})
        for nch in (2, 3):
            out.append({"name": "C:children=%d" % nch, "params": {"kind": "C", "n": nch}, "budget_s": 300})
            out.append({"name": "C:alternatives=%d" % nch, "params": {"kind": "C2", "n": nch}, "budget_s": 300})
    else:
        for g in corpus.shapes():
            for tb in ("LALR", "SLR"):
                out.append(_caseA(g, tb, 5, 1500))
        for g in corpus.gf_tiny(3):
            out.append(_caseA(g, "LALR", 4))
        for g in corpus.tiny3x3_fixed():
            out.append(_caseA(g, "LALR", 4))
        for f in FORESTS:
            out.append({"name": "B:%s" % f, "params": {"kind": "B", "forest": f}, "budget_s": 3000})
        for nch in (2, 3, 4):
            out.append({"name": "C:children=%d" % nch, "params": {"kind": "C", "n": nch}, "budget_s": 900})
            out.append({"name": "C:alternatives=%d" % nch, "params": {"kind": "C2", "n": nch}, "budget_s": 900})
    tw = {"name": "twin:C:children=2", "params": {"kind": "C", "n": 2, "twin": True}, "expect_refuted": True, "budget_s": 120}
    out.append(tw)
    tw = _caseA(corpus.shape("ambig-concat"), "LALR", 3)
    tw["name"] = "twin:" + tw["name"]
    tw["params"]["twin"] = True
    tw["expect_refuted"] = True
    out.append(tw)
    return out


def _caseA(g, tb, N, budget=600):
    return {
        "name": "A:%s|%s|N=%d" % (g.name, tb, N),
        "params": {"kind": "A", "grammar": g.short(), "gname": g.name, "tables": tb, "N": N, "K": 64},
        "budget_s": budget,
    }


def build(params, symbolic):
    kind = params.get("kind", "A")
    if kind == "A":
        return build_A(params, symbolic)
    if kind == "B":
        return build_B(params, symbolic)
    if kind == "C":
        return build_C(params, symbolic)
    return build_C2(params, symbolic)


# ------------------------------------------------------------------------------------------ (A)
def build_A(params, symbolic):
    spec = spec_from_params(params)
    N, K = params["N"], params["K"]
    parser = glr_build(spec, params["tables"])
    if symbolic:
        selfcheck_oracle(spec, min(N, 4))
    skip = [] if params.get("no_skip") else excluded_inputs("C03", spec.short())
    twin = params.get("twin")
    stats = {}

    def h(w: str):
        n = length_of(w, N)
        try:
            forest = parser.parse(w)
        except parglare.SyntaxError:
            bump(stats, "rejected")
            return True
        nw = norm(w, n, spec.ws)
        if skip and norm_in(nw, skip):
            raise Pre()
        bump(stats, "accepted")
        lex, ey = refcfg.analyse(spec, w, n)
        try:
            cnt = len(forest)
        except LoopError:
            if not ey.accepted:
                return True  # C01's subject
            kind, trees, _ = refcfg.derivations(spec, lex, ey, limit=K)
            if kind != "inf":
                return "LoopError from len(forest) but the input has finitely many derivations"
            bump(stats, "loop")
            return True
        if cnt != forest.solutions:
            return "len(forest)=%r != forest.solutions=%r" % (cnt, forest.solutions)
        if cnt < 1:
            return "forest with %r trees" % cnt
        for k in (cnt, cnt + 1):
            for getter in (forest.__getitem__, forest.get_nonlazy_tree):
                try:
                    getter(k)
                    return "index %d of a forest of %d trees did not raise IndexError" % (k, cnt)
                except IndexError:
                    pass
        # local packing: no two identical alternatives; ambiguity count
        amb = 0
        seen_par = set()
        for par, poss in pgx.sppf_nodes(forest):
            if id(par) in seen_par:
                continue
            seen_par.add(id(par))
            alts = []
            for p in par.possibilities:
                key = ("T", id(p)) if p.is_term() else ("N", id(p.production), tuple(id(c) for c in p.children))
                if key in alts:
                    return "ambiguity node %s holds the same alternative twice" % par
                alts.append(key)
            if len(alts) > 1:
                amb += 1
        if forest.ambiguities != amb + (1 if twin and amb else 0):
            return "forest.ambiguities=%r but %d nodes have more than one distinct alternative" % (forest.ambiguities, amb)
        if cnt <= K:
            if cnt > 1:
                bump(stats, "ambiguous")
            lazy = [pgx.conv(forest[i]) for i in range(cnt)]
            if len(set(lazy)) != cnt:
                return "len(forest)=%d but only %d distinct trees" % (cnt, len(set(lazy)))
            non = [pgx.conv(forest.get_nonlazy_tree(i)) for i in range(cnt)]
            if lazy != non:
                return "lazy and non-lazy enumeration differ"
            again = [pgx.conv(forest[i]) for i in range(cnt)]
            if lazy != again:
                return "repeated access returns different trees"
            if [pgx.conv(t) for t in forest] != lazy:
                return "iteration order differs from indexing"
            if pgx.conv(forest.get_first_tree()) != lazy[0]:
                return "get_first_tree() != forest[0]"
        return True

    h.stats = stats
    h.expect = [] if twin else ["accepted"]
    h.stubs = ["realize_atomic", "get_context"]
    return h


# ------------------------------------------------------------------------------------------ (B)
def build_B(params, symbolic):
    gtext, w, expected = FORESTS[params["forest"]]
    spec = parse_short(gtext)
    parser = GLRParser(Grammar.from_string(spec.text()))
    forest = parser.parse(w)
    L = len(forest)
    lex, ey = refcfg.analyse(spec, w, len(w))
    kind, trees, _ = refcfg.derivations(spec, lex, ey, limit=100000)
    refset = set(trees)
    if expected is not None and len(refset) != expected:
        raise AssertionError("reference count %d != expected %d" % (len(refset), expected))
    stats = {"L": L, "ref": len(refset)}
    seen = {}

    def h(i: int):
        if i < 0:
            raise Pre()
        if L != len(refset):
            return "len(forest)=%d but the reference has %d derivations" % (L, len(refset))
        try:
            lt = forest[i]
        except IndexError:
            if i < L:
                return "IndexError for a valid index"
            try:
                forest.get_nonlazy_tree(i)
                return "get_nonlazy_tree did not raise IndexError past the end"
            except IndexError:
                pass
            bump(stats, "past_end")
            return True
        if not (i < L):
            return "no IndexError for index >= len(forest)=%d" % L
        t = pgx.conv(lt)
        if t != pgx.conv(forest.get_nonlazy_tree(i)):
            return "lazy tree differs from non-lazy tree"
        if t != pgx.conv(forest[i]):
            return "repeated access differs"
        if t not in refset:
            return "forest[i] is not a derivation of the input"
        bump(stats, "in_range")
        if symbolic:
            if t in seen:
                return "two different indices yield the same tree (other index class first met on path %d)" % seen[t]
            seen[t] = stats.get("in_range", 0)
        else:
            for k in range(L):
                if k != i and pgx.conv(forest[k]) == t:
                    return "forest[%d] == forest[%d]" % (i, k)
        return True

    h.stats = stats
    h.expect = ["in_range", "past_end"]
    h.stubs = ["realize_atomic"]
    return h


# ------------------------------------------------------------------------------------------ (C)
def _mk_parent(possibilities, solutions=None):
    """A REAL glr.Parent (no GSS behind it) whose cached number of solutions is preset - so the decoding code under
    test reads real attributes of real classes; only the forest *content* is synthetic."""
    from parglare.glr import Parent as RealParent

    p = RealParent.__new__(RealParent)
    for slot, val in (("head", None), ("root", None), ("start_position", 0), ("end_position", 0), ("possibilities", possibilities),
                      ("_solutions", solutions), ("_ambiguities", 0), ("production", None), ("token", None)):
        setattr(p, slot, val)
    return p


def _Child(solutions):
    """Child link with one (terminal) alternative and a symbolic cached solution count."""
    from parglare.trees import NodeTerm

    return _mk_parent([NodeTerm(None, None)], solutions)


def _Node(children):
    from parglare.trees import NodeNonTerm

    return NodeNonTerm(None, children, production=None)


def _Root(possibilities):
    return _mk_parent(possibilities)


def _rec_tree_class(log):
    class RecTree(Tree):
        __slots__ = []

        def __init__(self, root, counter):
            log.append((root, counter))
            super().__init__(root, counter)

    return RecTree


def build_C(params, symbolic):
    nch = params["n"]
    twin = params.get("twin")
    stats = {}

    def body(ss, counter):
        total = 1
        for s in ss:
            if s < 1:
                raise Pre()
            total = total * s
        if counter < 0 or counter >= total:
            raise Pre()
        log = []
        RT = _rec_tree_class(log)
        kids = [_Child(s) for s in ss]
        root = _Root([_Node(kids)])
        RT(root, counter)
        got = {id(r): c for r, c in log[1:]}
        if len(log) != nch + 1:
            return "expected %d child trees, got %d" % (nch, len(log) - 1)
        acc = 0
        for k, s in zip(kids, ss):
            c = got[id(k)]
            if c < 0 or c >= (s - 1 if twin else s):
                return "child counter out of range"
            acc = acc * s + c
        if acc != counter:
            return "child counters do not recombine to the index"
        bump(stats, "decoded")
        return True

    if nch == 2:
        def h(s0: int, s1: int, counter: int):
            return body([s0, s1], counter)
    elif nch == 3:
        def h(s0: int, s1: int, s2: int, counter: int):
            return body([s0, s1, s2], counter)
    else:
        def h(s0: int, s1: int, s2: int, s3: int, counter: int):
            return body([s0, s1, s2, s3], counter)

    h.stats = stats
    h.expect = [] if twin else ["decoded"]
    h.stubs = ["stub child nodes for Tree decoding"]
    return h


def _Alt(solutions):
    """Alternative = a real NodeNonTerm over one child link with a symbolic number of solutions."""
    return _Node([_Child(solutions)])


def build_C2(params, symbolic):
    nalt = params["n"]
    stats = {}

    def body(ss, counter):
        total = 0
        for s in ss:
            if s < 1:
                raise Pre()
            total = total + s
        if counter < 0:
            raise Pre()
        alts = [_Alt(s) for s in ss]
        root = _Root(alts)
        log = []
        RT = _rec_tree_class(log)
        try:
            t = RT(root, counter)
        except IndexError:
            if counter < total:
                return "IndexError for an index below the number of solutions"
            bump(stats, "past_end")
            return True
        if counter >= total:
            return "no IndexError for an index >= the number of solutions"
        idx = [k for k, a in enumerate(alts) if a is t.root][0]
        before = 0
        for s in ss[:idx]:
            before = before + s
        if not (before <= counter and counter < before + ss[idx]):
            return "wrong alternative bucket chosen"
        if len(log) != 2 or log[1][1] != counter - before:
            return "index passed down into the chosen alternative is not the remainder"
        bump(stats, "in_range")
        return True

    if nalt == 2:
        def h(s0: int, s1: int, counter: int):
            return body([s0, s1], counter)
    elif nalt == 3:
        def h(s0: int, s1: int, s2: int, counter: int):
            return body([s0, s1, s2], counter)
    else:
        def h(s0: int, s1: int, s2: int, s3: int, counter: int):
            return body([s0, s1, s2, s3], counter)

    h.stats = stats
    h.expect = ["in_range", "past_end"]
    h.stubs = ["stub alternatives for Tree bucket search"]
    return h
