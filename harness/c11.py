"""C11 - error recovery terminates, reports disjoint spans and parses the rest."""
import parglare
from parglare import GLRParser, Grammar, Parser
from parglare.exceptions import DisambiguationError, LoopError, RRConflicts, SRConflicts
from parglare.parser import Token

from vp import corpus, pgx, refcfg
from vp.symx import Pre, Skip, build_guard

from .common import bump, length_of, selfcheck_oracle, spec_from_params

INFO = {
    "level": "other",
    "explanation": "Bounded symbolic execution of the real recovery code (Parser._do_recovery/default_error_recovery, GLR "
    "_do_error_recovery, re-entry of both main loops) on symbolic w, len(w) <= N: corrupted sentences are not sampled - "
    "EVERY string within the bound is explored, which contains all insertions/deletions/substitutions of all short "
    "sentences.  Per path: parse returns or raises parglare.SyntaxError within a step budget (recovery calls <= "
    "len(w)+2, plus a wall-clock watchdog); parser.errors spans are ints in bounds with start <= end, ordered and "
    "pairwise disjoint; default strategy: every returned tree is built from grammar productions with children matching "
    "the RHS and its leaves match the input at their positions, in input order, non-overlapping; LR: every non-layout "
    "character lies in exactly one leaf or exactly one span; if w is a sentence (reference) no error is recorded and "
    "the result equals the parser without recovery.  Two custom strategies (skip one character; inject one expected "
    "token once) are checked for termination and span discipline.",
    "bounds": {"quick": {"N": 4, "grammars": 10}, "thorough": {"N": 5, "grammars": 30}},
    "outside": "inputs longer than N; custom strategies other than the two listed; lexically overlapping terminals",
    "assumptions": ["get_context stubbed; realize-atomic marks", "termination = step budget + 60 s (CPU) per-path watchdog"],
}

MANIFEST = {
    "level_text": "Bounded symbolic execution of the real error-recovery paths of both parsers, path-exhaustive over all "
    "strings of length <= N (all code points); span discipline, tree validity, coverage of every non-layout character "
    "and transparency on sentences are asserted on every path.",
    "level_note": "Trusted: CrossHair proxies, z3, reference recogniser for the sentence clause.  Termination is a step "
    "budget on recovery calls plus a wall-clock watchdog, not a proof.",
}

SHAPES_Q = ["leftrec", "expr", "paren", "list-sep", "midrec", "nullable-mid", "opt-list", "ambig-binop", "nullable-chain", "rightrec"]


def cases(tier, seed):
    out = []
    N = 4 if tier == "quick" else 5
    names = SHAPES_Q
    gs = [corpus.shape(n) for n in names]
    if tier != "quick":
        gs += [g for g in corpus.stratified(corpus.gf_tiny(3), 20, seed)]
    for g in gs:
        for mode in ("lr", "glr"):
            out.append(_case(g, mode, "default", N))
    for nm in ("expr", "leftrec", "list-sep"):
        for mode in ("lr", "glr"):
            for strat in ("skip1", "inject"):
                out.append(_case(corpus.shape(nm), mode, strat, N))
    tw = _case(corpus.shape("leftrec"), "lr", "default", 3)
    tw["name"] = "twin:" + tw["name"]
    tw["params"]["twin"] = True
    tw["expect_refuted"] = True
    out.append(tw)
    return out


def _case(g, mode, strat, N):
    return {
        "name": "%s|%s|%s|N=%d" % (g.name, mode, strat, N),
        "params": {"grammar": g.short(), "gname": g.name, "mode": mode, "strategy": strat, "N": N},
        "budget_s": 1500,
    }


def build(params, symbolic):
    spec = spec_from_params(params)
    N, mode, strat = params["N"], params["mode"], params["strategy"]
    twin = params.get("twin")
    counter = {"n": 0, "injected": 0}

    def skip1(context, error, default):
        counter["n"] += 1
        if context.position >= len(context.input_str):
            return False
        context.position += 1
        return True

    def inject(context, error, default):
        if counter["injected"]:
            return default(context)
        counter["n"] += 1
        for sym in context.state.actions:
            if sym.name not in ("STOP", "EMPTY"):
                counter["injected"] += 1
                # a missing token is injected: it carries the terminal's text but consumes nothing
                context.token_ahead = Token(sym, getattr(sym.recognizer, "value", sym.name), context.position, length=0)
                return True
        return False

    recovery = {"default": True, "skip1": skip1, "inject": inject}[strat]
    Cls = Parser if mode == "lr" else GLRParser
    kw = {"build_tree": True} if mode == "lr" else {}
    try:
        with build_guard(20):
            parser = Cls(Grammar.from_string(spec.text()), error_recovery=recovery, **kw)
            plain = Cls(Grammar.from_string(spec.text()), **kw)
    except (SRConflicts, RRConflicts) as e:
        raise Skip("Parser() does not construct: %s" % type(e).__name__)
    # step counter on the default strategy
    orig_default = parser.default_error_recovery

    def counting_default(head):
        counter["n"] += 1
        return orig_default(head)

    parser.default_error_recovery = counting_default
    if symbolic:
        selfcheck_oracle(spec, 3)
    prodset = set(spec.prods)
    stats = {}

    def tree_ok(t, w, n, lex):
        """structure + leaves (no contiguity: skipped input lies between leaves)."""
        last = [0]

        def rec(x):
            if x[0] == "T":
                _, name, s, e = x
                if not (isinstance(s, int) and isinstance(e, int) and 0 <= s <= e <= n):
                    return "leaf span %r" % (x,)
                if s == e:
                    return None if strat == "inject" else "empty leaf %r" % (x,)
                if lex.match(name, s) != e:
                    return "leaf %s[%d:%d] does not match the input" % (name, s, e)
                if s < last[0]:
                    return "leaves out of input order / overlapping at %d" % s
                last[0] = e
                return None
            _, lhs, rhs, ch = x
            if (lhs, rhs) not in prodset:
                return "unknown production %s -> %s" % (lhs, rhs)
            if len(ch) != len(rhs) or any(c[1] != sym for c, sym in zip(ch, rhs)):
                return "children of %s do not match its RHS" % lhs
            for c in ch:
                r = rec(c)
                if r:
                    return r
            return None

        return rec(t)

    def h(w: str):
        n = length_of(w, N)
        counter["n"] = 0
        counter["injected"] = 0
        raised = None
        res = None
        try:
            res = parser.parse(w)
        except parglare.SyntaxError as e:
            raised = e
        if counter["n"] > (n + 2) * (1 if mode == "lr" else 8):
            return "recovery was invoked %d times on an input of length %d" % (counter["n"], n)
        lex, ey = refcfg.analyse(spec, w, n)
        # "sentence": for GLR the reference decides; a conflict-resolved LR parser accepts a subset of the language, so
        # for LR a sentence is what the same parser accepts without recovery
        is_sentence = ey.accepted
        if mode == "lr":
            try:
                plain.parse(w)
                is_sentence = True
            except parglare.SyntaxError:
                is_sentence = False
        if raised is not None:
            if is_sentence:
                return "SyntaxError on a sentence with recovery enabled"
            bump(stats, "raised")
            return True
        errors = list(parser.errors)
        if is_sentence and strat == "default":
            if errors:
                return "errors recorded on a sentence"
            r0 = plain.parse(w)
            if mode == "lr":
                if pgx.conv(res) != pgx.conv(r0):
                    return "result with recovery differs from the result without"
            else:
                try:
                    if len(res) != len(r0) or (len(res) <= 16 and [pgx.conv(t) for t in res] != [pgx.conv(t) for t in r0]):
                        return "forest with recovery differs from the forest without"
                except LoopError:
                    pass
            bump(stats, "sentence")
            return True
        if not is_sentence and not ey.accepted and not errors:
            return "non-sentence accepted without any recorded error"
        # spans
        prev_end = 0
        spans = []
        for e in errors:
            s, t = e.location.start_position, e.location.end_position
            if not (isinstance(s, int) and isinstance(t, int) and 0 <= s <= t <= n):
                return "error span %r-%r out of bounds" % (s, t)
            if s < prev_end and spans:
                return "error spans overlap / are out of order: %r then %r" % (spans[-1], (s, t))
            prev_end = t
            spans.append((s, t))
        if strat != "default" and mode != "lr":
            bump(stats, "recovered_custom")
            return True
        # trees
        if mode == "lr":
            trees = [pgx.conv(res)]
        else:
            try:
                cnt = len(res)
            except LoopError:
                cnt = 0
            trees = [pgx.conv(res[i]) for i in range(min(cnt, 8))]
        for t in trees:
            why = tree_ok(t, w, n, lex)
            if why:
                return "tree after recovery: " + why
        if mode == "lr":
            cover = [0] * n
            for lf in pgx.leaves(trees[0]):
                for i in range(lf[2], lf[3]):
                    cover[i] += 1
            for s, t in spans:
                for i in range(s, t):
                    cover[i] += 1
            for i in range(n):
                c = w[i]
                if cover[i] > 1:
                    return "character %d is covered %d times" % (i, cover[i])
                if cover[i] == 0 and (twin or not (c in spec.ws)):
                    return "non-layout character at %d is in no leaf and no error span" % i
        bump(stats, "recovered" if strat == "default" else "recovered_custom")
        return True

    h.stats = stats
    h.expect = [] if twin else (["sentence"] if strat == "default" else ["recovered_custom"])
    h.stubs = ["realize_atomic", "get_context", "counting wrapper on default_error_recovery"]
    return h


def replay_known(k):
    """Known findings of C11 lie outside the explored bound (long inputs, 4+ nonterminals): replayed natively as given."""
    still = []
    for name in k["inputs"]:
        gtext, w = k["native"][name]
        p = GLRParser(Grammar.from_string(gtext), error_recovery=True)
        try:
            p.parse(w)
        except parglare.SyntaxError:
            continue
        spans = [(e.location.start_position, e.location.end_position) for e in p.errors]
        prev = 0
        for a, b in spans:
            if not (isinstance(a, int) and isinstance(b, int) and a <= b and a >= prev):
                still.append(name)
                break
            prev = b
    return still
