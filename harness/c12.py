"""C12 - the table cache is transparent whatever its age, origin or completeness."""
import json
import os
import shutil
import tempfile

import parglare
import parglare.tables as T
from parglare import GLRParser, Grammar, Parser
from parglare.exceptions import RRConflicts, SRConflicts
from parglare.tables import LALR, SLR
from parglare.tables.persist import load_table, save_table, table_to_serializable

from vp import corpus
from vp.symx import Pre, Skip, native

from .common import bump

INFO = {
    "level": "other",
    "explanation": "Real files in a scratch directory (tempfile, removed at exit) and the real create_load_table / save_table / "
    "load_table / table_from_serializable / LRTable(calc_finish_flags=False) / Parser.__init__ / GLRParser.__init__.  "
    "(H) history x options: the option vector (tables, prefer_shifts, prefer_shifts_over_empty, lexical_disambiguation) "
    "and parser kind of TWO successive builds on one grammar file are symbolic booleans; the second build's serialised "
    "table and its outcome on 6 inputs must equal those of the same constructor on Grammar.from_string (no cache).  "
    "Because the .pgc format cannot record options (a suite test pins the file bytes) the known defect 'cache written "
    "under another option vector is loaded as is' is assumed away (precondition: equal vectors) and replayed natively "
    "as a known finding.  (M) mtime order: os.path.getmtime seen by parglare.tables is a stub returning symbolic "
    "integers for root grammar, imported grammar and .pgc; after the imported/root file was edited, .pgc older than any "
    "grammar file => the parser behaves as the edited grammar and the .pgc is rewritten; a second case gives the stub the "
    "sub-second resolution of real mtimes (q/4 seconds, q a symbolic integer in 0..11, carried by an integer-grid number "
    "type supporting comparison and int()/float()/round()).  (K) crash prefix: symbolic "
    "0 <= k < len(.pgc); the cache file is truncated to k bytes and the parser built again must behave like no cache "
    "(the solver enumerates k at the file boundary: exhaustive over all prefixes of that file, no class merging).  "
    "(R) round trip, no symbolic variable (a plain differential, labelled as such): save/load/save over the grammar "
    "families - actions, gotos, finish flags, conflicts, dynamic marks equal; second save byte-identical.",
    "bounds": {"quick": {"H": "1 grammar file with an import, 2 builds", "M": "4 files (root -> imp -> leaf chain + .pgc), symbolic mtimes: unbounded integers, and quarter seconds in [0, 3)", "K": "every prefix of the .pgc of one small grammar (split over 8 workers)", "R": "GF-shapes + 100 GF-tiny(3)"},
               "thorough": {"H": "3 grammar files", "K": "every prefix for 3 grammar files incl. one with an import", "R": "all GF-tiny(3)"}},
    "outside": "histories longer than two builds + one edit; pglr compile (CLI); concurrent writers; equal mtimes; "
    "the .pgec error-hints cache",
    "assumptions": ["os.path.getmtime stub for parglare.tables only (M)", "file contents / json are concretised at the C boundary"],
}

MANIFEST = {
    "technique": 'bounded symbolic execution of the real cache code (CrossHair engine + z3): option vectors of writer/reader, file mtimes (stubbed clock) and crash prefix length are solver variables; round-trip clause by native differential',
    "level_text": "Bounded symbolic execution over the variables the test-suite never crosses: option vectors of the "
    "writer and the reader of a cache file, file modification times (stubbed clock, symbolic), and the crash point of an "
    "interrupted write (symbolic prefix length, enumerated exhaustively).  The round-trip clause has no symbolic "
    "variable and is reported as the concrete differential it is.",
    "level_note": "Trusted: CrossHair proxies, z3; the file system and json run for real on concretised values.  Known "
    "finding: option mismatch between cache writer and reader (not repairable without changing the pinned .pgc format).",
}

ROOT_G = """import 'imp.pg' as i;
S: S '+' i.T | i.T;
"""
IMP_G = """import 'leaf.pg' as l;
T: T l.OP F | F;
F: '(' i_never | 'n';
i_never: 'q';
"""
LEAF_G = "OP: '*';\n"
LEAF_G2 = "OP: '/';\n"
IMP_G2 = LEAF_G2  # the edit happens in the deepest file of the chain root -> imp -> leaf
SMALL = "E: E '+' 'n' | 'n';"
OVERLAP = "S: Item S | Item;\nItem: 'for' | ID;\nterminals\nID: /\\w+/;\n"
FLAT = "E: E '+' E | E '*' E | 'n' | A; A: 'a' | EMPTY;"
PROBES = ["n", "n + n", "n * n + n", "n +", "n n", "", "n / n", "a", "n + + n", "n * n * n", "for", "forest", "for x for", "fo"]

_dirs = []


def scratch():
    d = tempfile.mkdtemp(prefix="vp-c12-")
    _dirs.append(d)
    return d


def _cleanup():
    for d in _dirs:
        shutil.rmtree(d, ignore_errors=True)


import atexit  # noqa

atexit.register(_cleanup)


def cases(tier, seed):
    out = []
    out.append({"name": "H:imports", "params": {"kind": "H", "g": "imports"}, "budget_s": 3000})
    out.append({"name": "H:flat-ambiguous", "params": {"kind": "H", "g": "flat"}, "budget_s": 3000})
    out.append({"name": "M:imports", "params": {"kind": "M"}, "budget_s": 1500})
    # os.path.getmtime returns float seconds: the same with times in quarter seconds (q/4 with q a symbolic int, 0 <= q < 12)
    out.append({"name": "M:imports|fractional mtimes", "params": {"kind": "M", "frac": 4}, "budget_s": 600})
    kgs = [("small", False), ("overlap", True)] if tier == "quick" else [("small", False), ("overlap", True), ("overlap", False), ("flat", False), ("flat", True), ("imports", False)]
    for kg, glr in kgs:
        parts = 8 if kg in ("small", "overlap") else 32
        for part in range(parts):
            out.append({"name": "K:%s%s:part%02d/%d" % (kg, ":glr" if glr else "", part, parts),
                        "params": {"kind": "K", "g": kg, "glr": glr, "part": part, "parts": parts}, "budget_s": 3000})
    gs = corpus.shapes() + (corpus.stratified(corpus.gf_tiny(3), 100, seed) if tier == "quick" else corpus.gf_tiny(3))
    for n in range(0, len(gs), 40):
        out.append({"name": "R:batch%02d" % (n // 40), "params": {"kind": "R", "grammars": [g.short() for g in gs[n : n + 40]]}})
    out.append({"name": "twin:M", "params": {"kind": "M", "twin": True}, "expect_refuted": True, "budget_s": 600})
    return out


def write_files(d, which, imp=None):
    imp = LEAF_G if imp is None else imp
    if which == "imports":
        with open(os.path.join(d, "root.pg"), "w") as f:
            f.write(ROOT_G)
        with open(os.path.join(d, "imp.pg"), "w") as f:
            f.write(IMP_G)
        with open(os.path.join(d, "leaf.pg"), "w") as f:
            f.write(imp if imp in (LEAF_G, LEAF_G2) else LEAF_G)
    else:
        with open(os.path.join(d, "root.pg"), "w") as f:
            f.write({"flat": FLAT, "small": SMALL, "overlap": OVERLAP}[which])
    return os.path.join(d, "root.pg")


def outcome(parser, w):
    try:
        r = parser.parse(w)
    except parglare.SyntaxError as e:
        return ("SyntaxError", e.location.start_position)
    except Exception as e:  # noqa
        return (type(e).__name__,)
    if isinstance(parser, GLRParser):
        try:
            return ("forest", len(r), r[0].to_str())
        except Exception as e:  # noqa
            return ("forest", type(e).__name__)
    return ("ok", repr(r))


def construct(glr, grammar, vec):
    tables, ps, pse, ld = vec
    Cls = GLRParser if glr else Parser
    try:
        return Cls(grammar, tables=SLR if tables else LALR, prefer_shifts=ps, prefer_shifts_over_empty=pse, lexical_disambiguation=ld)
    except (SRConflicts, RRConflicts) as e:
        return type(e).__name__


def fingerprint(p):
    if isinstance(p, str):
        return p
    return json.dumps(table_to_serializable(p.table), sort_keys=True)


def build(params, symbolic):
    return {"H": build_H, "M": build_M, "K": build_K, "R": build_R}[params["kind"]](params, symbolic)


# ------------------------------------------------------------------------------------------ (H)
def build_H(params, symbolic):
    which = params["g"]
    stats = {}
    fresh_text = FLAT if which == "flat" else None

    def h(glr1: bool, t1: bool, ps1: bool, pse1: bool, ld1: bool, glr2: bool, t2: bool, ps2: bool, pse2: bool, ld2: bool):
        v1 = (bool(t1), bool(ps1), bool(pse1), bool(ld1))
        v2 = (bool(t2), bool(ps2), bool(pse2), bool(ld2))
        glr1, glr2 = bool(glr1), bool(glr2)
        if not params.get("allow_mismatch") and v1 != v2:
            raise Pre()  # known finding: option mismatch between writer and reader of the cache
        with native():
            d = scratch()
            try:
                root = write_files(d, which)
                construct(glr1, Grammar.from_file(root), v1)  # may write root.pgc
                had_cache = os.path.exists(os.path.join(d, "root.pgc"))
                p2 = construct(glr2, Grammar.from_file(root), v2)
                d2 = scratch()  # fresh directory: no cache file exists when the reference parser is built
                root2 = write_files(d2, which)
                ref = construct(glr2, Grammar.from_file(root2), v2)
                shutil.rmtree(d2, ignore_errors=True)
                if fingerprint(p2) != fingerprint(ref):
                    return "second build (cache present: %s) has a different table than a build without cache" % had_cache
                if not isinstance(p2, str):
                    for w in PROBES:
                        if outcome(p2, w) != outcome(ref, w):
                            return "outcome on %r differs from the parser built without cache" % w
            finally:
                shutil.rmtree(d, ignore_errors=True)
        bump(stats, "pairs")
        return True

    h.stats = stats
    h.expect = ["pairs"]
    h.stubs = ["realize_atomic", "get_context"]
    return h


# ------------------------------------------------------------------------------------------ (M)
class _QTime:
    """Seconds on a 1/den grid (q/den, q a symbolic int) as the number os.path.getmtime returns: ordered like the
    rational it stands for, convertible with int()/float()/round()/floor - all in integer arithmetic, because
    symbolic reals make the solver queries of this harness an order of magnitude slower."""

    def __init__(self, q, den):
        self.q, self.den = q, den

    def _q(self, o):
        if isinstance(o, _QTime):
            return o.q * self.den, self.q * o.den
        return o * self.den, self.q

    def __lt__(self, o):
        b, a = self._q(o)
        return a < b

    def __le__(self, o):
        b, a = self._q(o)
        return a <= b

    def __gt__(self, o):
        b, a = self._q(o)
        return a > b

    def __ge__(self, o):
        b, a = self._q(o)
        return a >= b

    def __eq__(self, o):
        b, a = self._q(o)
        return a == b

    def __ne__(self, o):
        return not self.__eq__(o)

    def __hash__(self):
        return hash(self.q)

    def __int__(self):
        return self.q // self.den  # q >= 0

    __trunc__ = __floor__ = __int__

    def __ceil__(self):
        return -((-self.q) // self.den)

    def __round__(self, nd=None):
        return round(float(self), nd) if nd else (2 * self.q + self.den) // (2 * self.den)

    def __float__(self):
        return self.q / self.den

    def __sub__(self, o):
        return float(self) - float(o)

    def __rsub__(self, o):
        return float(o) - float(self)


class _OsShim:
    """What parglare.tables sees as `os`: real module, except path.getmtime answers from a table."""

    def __init__(self, mtimes):
        self._mt = mtimes
        self.path = self

    def __getattr__(self, name):
        return getattr(os.path, name) if hasattr(os.path, name) and name in ("exists", "splitext", "join", "dirname", "basename", "realpath") else getattr(os, name)

    def getmtime(self, f):
        return self._mt[os.path.basename(f)]


def build_M(params, symbolic):
    stats = {}
    twin = params.get("twin")
    d = scratch()
    root = write_files(d, "imports")
    g_old = Grammar.from_file(root)
    Parser(g_old)  # writes root.pgc for the OLD imported grammar
    with open(os.path.join(d, "root.pgc")) as f:
        old_cache = f.read()
    # edit the deepest imported file
    with open(os.path.join(d, "leaf.pg"), "w") as f:
        f.write(LEAF_G2)
    d2 = scratch()
    write_files(d2, "imports", IMP_G2)
    fresh = Parser(Grammar.from_file(os.path.join(d2, "root.pg")))
    fresh_fp = fingerprint(fresh)
    real_os = T.os

    def h(m_root: int, m_imp: int, m_leaf: int, m_pgc: int):
        with open(os.path.join(d, "root.pgc"), "w") as f:
            f.write(old_cache)
        mt = {"root.pg": m_root, "imp.pg": m_imp, "leaf.pg": m_leaf, "root.pgc": m_pgc}
        if params.get("frac"):
            for v in mt.values():
                if not (0 <= v < 3 * params["frac"]):
                    raise Pre()
            mt = {k: _QTime(v, params["frac"]) for k, v in mt.items()}
        with native():
            g = Grammar.from_file(root)
        stale = (m_pgc < m_root) or (m_pgc < m_imp) or (m_pgc < m_leaf)
        if twin:
            stale = m_pgc <= m_root or m_pgc <= m_imp or m_pgc <= m_leaf
        T.os = _OsShim(mt)
        try:
            p = Parser(g)
        except Exception as e:  # noqa
            if stale:
                return "stale cache: Parser() raised %s" % type(e).__name__
            # cache not older than the grammar files: loading it is legitimate even though the file content
            # was edited (edits that do not advance the mtime are outside the statement)
            bump(stats, "not_stale")
            return True
        finally:
            T.os = real_os
        if stale:
            if fingerprint(p) != fresh_fp:
                return "cache older than a grammar file but the parser still uses it"
            with open(os.path.join(d, "root.pgc")) as f:
                if f.read() == old_cache:
                    return "stale cache file was not rewritten"
            for w in PROBES:
                if outcome(p, w) != outcome(fresh, w):
                    return "outcome on %r differs from the fresh parser" % w
            bump(stats, "stale")
        else:
            bump(stats, "not_stale")
        return True

    h.stats = stats
    h.expect = [] if twin else ["stale", "not_stale"]
    h.stubs = ["realize_atomic", "get_context", "os.path.getmtime stub in parglare.tables"]
    return h


# ------------------------------------------------------------------------------------------ (K)
def build_K(params, symbolic):
    which = params["g"]
    stats = {}
    Cls = GLRParser if params.get("glr") else Parser
    d = scratch()
    root = write_files(d, which)
    Cls(Grammar.from_file(root))
    with open(os.path.join(d, "root.pgc"), "rb") as f:
        full = f.read()
    d2 = scratch()
    root2 = write_files(d2, which)
    fresh = Cls(Grammar.from_file(root2))
    fresh_fp = fingerprint(fresh)
    fresh_out = [outcome(fresh, w) for w in PROBES]
    L = len(full)
    stats["file_bytes"] = L

    lo = L * params.get("part", 0) // params.get("parts", 1)
    hi = L * (params.get("part", 0) + 1) // params.get("parts", 1)
    stats["range"] = [lo, hi]

    def h(k: int):
        if k < lo or k >= hi:
            raise Pre()
        from vp.symx import realize

        kk = realize(k)
        with native():
            with open(os.path.join(d, "root.pgc"), "wb") as f:
                f.write(full[:kk])
            try:
                p = Cls(Grammar.from_file(root))
            except Exception as e:  # noqa
                return "building a parser over a cache truncated to %d of %d bytes raised %s: %s" % (kk, L, type(e).__name__, e)
            if fingerprint(p) != fresh_fp:
                return "table differs from the table built without cache (truncated to %d bytes)" % kk
            if [outcome(p, w) for w in PROBES] != fresh_out:
                return "outcomes differ from the parser built without cache"
        bump(stats, "prefixes")
        return True

    h.stats = stats
    h.expect = ["prefixes"]
    h.stubs = ["realize_atomic", "get_context"]
    return h


# ------------------------------------------------------------------------------------------ (R)
def build_R(params, symbolic):
    raise Skip("R is executed by run_case")


def run_case(params):
    """Only for kind R (plain native differential); the symbolic kinds go through the generic worker."""
    if params["kind"] != "R":
        return None
    import time

    from vp.gspec import parse_short

    t0 = time.process_time()
    d = scratch()
    n = 0
    bad = []
    for gs in params["grammars"]:
        spec = parse_short(gs)
        g = Grammar.from_string(spec.text())
        for kind in (LALR, SLR):
            try:
                from parglare.closure import LR_0, LR_1

                t = T.create_table(g, itemset_type=LR_1 if kind == LALR else LR_0, prefer_shifts=False, prefer_shifts_over_empty=False)
            except Exception as e:  # noqa
                bad.append({"args": {"grammar": gs}, "detail": "create_table raised %r" % (e,)})
                continue
            f1 = os.path.join(d, "t1.pgc")
            f2 = os.path.join(d, "t2.pgc")
            save_table(f1, t)
            t2 = load_table(f1, g)
            save_table(f2, t2)
            n += 1
            if open(f1, "rb").read() != open(f2, "rb").read():
                bad.append({"args": {"grammar": gs}, "detail": "second save is not byte-identical"})
            elif table_to_serializable(t) != table_to_serializable(t2):
                bad.append({"args": {"grammar": gs}, "detail": "loaded table differs"})
            elif [(c.state.state_id, c.term.name, [p.prod_id for p in c.productions]) for c in t.sr_conflicts + t.rr_conflicts] != [
                (c.state.state_id, c.term.name, [p.prod_id for p in c.productions]) for c in t2.sr_conflicts + t2.rr_conflicts
            ]:
                bad.append({"args": {"grammar": gs}, "detail": "conflicts differ after load"})
            elif [sorted(x.name for x in s.dynamic) for s in t.states] != [sorted(x.name for x in s.dynamic) for s in t2.states]:
                bad.append({"args": {"grammar": gs}, "detail": "dynamic marks differ after load"})
    res = {"paths": n, "confirmed": n - len(bad), "nontrivial": n - len(bad), "ignored": 0, "unknown": 0, "refuted": len(bad), "exhausted": True,
           "cpu_s": round(time.process_time() - t0, 2), "solver_calls": 0, "solver_s": 0.0, "solver_unknown": 0,
           "counterexamples": bad[:3], "samples": [{"args": {"grammar": params["grammars"][0]}, "verdict": "round trip identical (native differential, no solver)", "choices": 0}],
           "unknown_reasons": [], "stopped": None}
    res["holds"] = not bad and n > 0
    _cleanup()
    return {"result": res, "functions": ["tables/persist.py:save_table", "tables/persist.py:load_table", "tables/persist.py:table_from_serializable", "tables/persist.py:table_to_serializable"], "stubs": []}


def _generic(params):
    raise AssertionError


def replay(rec):
    from vp.symx import Pre

    p = rec["params"]
    if p["kind"] == "R":
        r = run_case({"kind": "R", "grammars": [rec["args"]["grammar"]]})
        return (not r["result"]["holds"]), str(r["result"]["counterexamples"])
    fn = build(p, symbolic=False)
    try:
        r = fn(**rec["args"])
    except Pre:
        return False, "precondition false"
    except Exception as e:  # noqa
        return True, "exception %s: %s" % (type(e).__name__, e)
    finally:
        _cleanup()
    if r is True or r is None:
        return False, "holds on replay"
    return True, r


def replay_known(k):
    fn = build_H({"kind": "H", "g": k["params"]["g"], "allow_mismatch": True}, symbolic=False)
    still = []
    for name in k["inputs"]:
        a = k["args"][name]
        r = fn(**a)
        if not (r is True or r is None):
            still.append(name)
    _cleanup()
    return still
