"""C20 - a grammar split over imported files means the same as the flattened grammar."""
import atexit
import os
import shutil
import tempfile

import parglare
from parglare import GLRParser, Grammar, Parser
from parglare.exceptions import LoopError, RRConflicts, SRConflicts

from vp import pgx
from vp.symx import Pre, Skip

from .common import bump, length_of

INFO = {
    "level": "other",
    "explanation": "Import layouts (chain, diamond, a diamond whose shared file is reached as 'c.pg' and as '../c.pg', 2- and 3-cycles, KEYWORD in the root with the keyword-like string only in the imported file (regex model, alphabet {i f x ; space}), aliases, references two levels deep, a file imported twice, "
    "terminals sections in imported files, override of an imported rule from the root and from an intermediate file) are "
    "written to a scratch directory and loaded by the real Grammar.from_file / PGFile / PGFileImport machinery; each is "
    "paired with a hand-flattened single-file grammar (rules renamed to their qualified names along the first import "
    "path, '.' written '_').  Natively: the nonterminal and terminal key sets equal the flattened grammar's (each file's "
    "rules once).  Symbolically, w with len(w) <= N: same acceptance and same result from the LR parsers, same number of "
    "trees and same call_actions results from the GLR parsers.",
    "bounds": {"quick": {"layouts": 14, "N": 5}, "thorough": {"layouts": 14, "N": 6}},
    "outside": "inputs longer than N; layouts other than the listed ones; *_actions.py / *_recognizers.py companions; named matches",
    "assumptions": ["get_context stubbed; realize-atomic marks", "hand-flattened grammars are the reference"],
}

MANIFEST = {
    "technique": 'bounded symbolic execution of both parsers built from multi-file vs. hand-flattened grammars on one symbolic input (CrossHair engine + z3); symbol key sets compared natively',
    "level_text": "Bounded symbolic execution of both parsers built from multi-file grammars against parsers built from the "
    "hand-flattened grammar on the same symbolic input; path-exhaustive for len(w) <= N per layout; symbol key sets "
    "compared natively.",
    "level_note": "Trusted: CrossHair proxies, z3; the flattened grammars are hand-written (the program bound).",
}

LAYOUTS = {
    "chain": ({"root.pg": "import 'a.pg';\nS: a.A 'x';", "a.pg": "import 'b.pg';\nA: b.B 'y' | 'y';", "b.pg": "B: 'z' B | 'z';"},
              "S: a_A 'x'; a_A: a_b_B 'y' | 'y'; a_b_B: 'z' a_b_B | 'z';"),
    "diamond": ({"root.pg": "import 'a.pg';\nimport 'b.pg';\nS: a.A b.B;", "a.pg": "import 'c.pg';\nA: 'a' c.C;", "b.pg": "import 'c.pg';\nB: 'b' c.C;",
                 "c.pg": "C: 'c' | EMPTY;"},
                "S: a_A b_B; a_A: 'a' a_c_C; b_B: 'b' a_c_C; a_c_C: 'c' | EMPTY;"),
    "cycle2": ({"root.pg": "import 'a.pg';\nS: 's' a.A | 's';", "a.pg": "import 'root.pg';\nA: 'a' root.S;"},
               "S: 's' a_A | 's'; a_A: 'a' S;"),
    "cycle3": ({"root.pg": "import 'a.pg';\nS: 's' a.A | 's';", "a.pg": "import 'b.pg';\nA: 'a' b.B | 'a';", "b.pg": "import 'root.pg';\nB: 'b' root.S;"},
               "S: 's' a_A | 's'; a_A: 'a' a_b_B | 'a'; a_b_B: 'b' S;"),
    "alias": ({"root.pg": "import 'a.pg' as x;\nS: x.A 'e' | 'e';", "a.pg": "A: 'a' A | 'a';"},
              "S: x_A 'e' | 'e'; x_A: 'a' x_A | 'a';"),
    "deep-ref": ({"root.pg": "import 'a.pg';\nS: a.b.B a.A;", "a.pg": "import 'b.pg';\nA: 'a' | b.B 'a';", "b.pg": "B: 'b';"},
                 "S: a_b_B a_A; a_A: 'a' | a_b_B 'a'; a_b_B: 'b';"),
    "override-root": ({"root.pg": "import 'a.pg';\nS: a.A | a.B 'r';\na.B: 'q';", "a.pg": "A: B 'x';\nB: 'b';"},
                      "S: a_A | a_B 'r'; a_B: 'q'; a_A: a_B 'x';"),
    "override-mid": ({"root.pg": "import 'a.pg';\nS: a.A;", "a.pg": "import 'b.pg';\nA: b.B | 'a' b.C;\nb.C: 'q';", "b.pg": "B: C 'x';\nC: 'c';"},
                     "S: a_A; a_A: a_b_B | 'a' a_b_C; a_b_C: 'q'; a_b_B: a_b_C 'x';"),
    "imported-terminals": ({"root.pg": "import 'a.pg';\nS: a.A 'x';", "a.pg": "A: T1 A | T1;\nterminals\nT1: 't';"},
                           "S: a_A 'x'; a_A: a_T1 a_A | a_T1;\nterminals\na_T1: 't';"),
    "twice": ({"root.pg": "import 'a.pg' as x;\nimport 'a.pg' as y;\nS: x.A y.A;", "a.pg": "A: 'a' | 'b';"},
              "S: x_A x_A; x_A: 'a' | 'b';"),
    "subdir": ({"root.pg": "import 'sub/a.pg';\nS: a.A 'x';", "sub/a.pg": "import '../b.pg';\nA: b.B | 'a';", "b.pg": "B: 'b' 'b';"},
               "S: a_A 'x'; a_A: a_b_B | 'a'; a_b_B: 'b' 'b';"),
    # the shared file of a diamond reached under two spellings of its path
    "diamond-dirs": ({"root.pg": "import 'a.pg';\nimport 'sub/b.pg';\nS: a.A b.B;", "a.pg": "import 'c.pg';\nA: 'a' c.C;",
                      "sub/b.pg": "import '../c.pg';\nB: 'b' c.C;", "c.pg": "C: 'c' | EMPTY;"},
                     "S: a_A b_B; a_A: 'a' a_c_C; b_B: 'b' a_c_C; a_c_C: 'c' | EMPTY;"),
    # KEYWORD declared in the root, the keyword-like string only in the imported file
    "keyword-import": ({"root.pg": "import 'a.pg';\nS: a.A ID ';' | ID ';';\nterminals\nID: /[a-z]+/;\nKEYWORD: /[a-z]+/;", "a.pg": "A: 'if';"},
                       "S: a_A ID ';' | ID ';'; a_A: 'if';\nterminals\nID: /[a-z]+/;\nKEYWORD: /[a-z]+/;"),
    "sugar-in-import": ({"root.pg": "import 'a.pg';\nS: a.A+ 'x' a.B?;", "a.pg": "A: 'a' | 'c';\nB: 'b';"},
                        "S: a_A+ 'x' a_B?; a_A: 'a' | 'c'; a_B: 'b';"),
}

_dirs = []
atexit.register(lambda: [shutil.rmtree(d, ignore_errors=True) for d in _dirs])


def cases(tier, seed):
    out = []
    N = 5 if tier == "quick" else 6
    for nm in LAYOUTS:
        if nm == "keyword-import":  # regex terminals run on the regex model: stated alphabet
            out.append({"name": "%s|N=%d" % (nm, N), "params": {"layout": nm, "N": N, "alphabet": "ifx; "}, "budget_s": 3000})
            continue
        out.append({"name": "%s|N=%d" % (nm, N), "params": {"layout": nm, "N": N}, "budget_s": 3000})
    # ignore_case must reach the terminals of imported files too (letters in the imported terminals; inputs with either case)
    for nm in ("chain", "imported-terminals"):
        out.append({"name": "%s|ignore_case|N=3" % nm, "params": {"layout": nm, "N": 3, "icase": True, "alphabet": "xyztXYZT a"}, "budget_s": 1500})
    out.append({"name": "twin:override-root", "params": {"layout": "override-root", "N": 3, "twin": True}, "expect_refuted": True, "budget_s": 300})
    return out


def load(files, **kw):
    d = tempfile.mkdtemp(prefix="vp-c20-")
    _dirs.append(d)
    for name, text in files.items():
        path = os.path.join(d, name)
        os.makedirs(os.path.dirname(path), exist_ok=True)
        with open(path, "w") as f:
            f.write(text)
    return Grammar.from_file(os.path.join(d, "root.pg"), **kw)


def keys(g):
    special = {"S'", "STOP", "EMPTY"}
    return (sorted(k.replace(".", "_") for k in g.nonterminals if k not in special), sorted(k.replace(".", "_") for k in g.terminals if k not in special))


def _try(cls, g, **kw):
    try:
        return cls(g, **kw)
    except (SRConflicts, RRConflicts):
        return None


def build(params, symbolic):
    files, flat = LAYOUTS[params["layout"]]
    N = params["N"]
    twin = params.get("twin")
    if twin:
        flat = flat.replace("a_B: 'q';", "a_B: 'b';")  # pretends the override did not happen
    gkw = {"ignore_case": True} if params.get("icase") else {}
    problem = None
    try:
        g_m = load(files, **gkw)
    except Exception as e:  # noqa
        problem = "multi-file grammar does not load: %s: %s" % (type(e).__name__, str(e).replace("\n", " ")[:150])
    if problem is None:
        g_f = Grammar.from_string(flat, **gkw)
        if keys(g_m) != keys(g_f):
            problem = "symbol sets differ: imported %r, flattened %r" % (keys(g_m), keys(g_f))
    if problem is not None:
        def hfail(w: str):
            return problem

        hfail.stats = {}
        hfail.expect = []
        hfail.stubs = []
        return hfail
    lr_m, lr_f = _try(Parser, load(files, **gkw)), _try(Parser, Grammar.from_string(flat, **gkw))
    glr_m, glr_f = GLRParser(load(files, **gkw)), GLRParser(Grammar.from_string(flat, **gkw))
    if symbolic:
        from vp import pyre

        for prs in (lr_m, lr_f, glr_m, glr_f):
            if prs is not None:
                pyre.install(prs.grammar, params.get("alphabet"), 4)
    for d in _dirs:
        for fn in os.listdir(d):
            if fn.endswith(".pgc"):
                os.remove(os.path.join(d, fn))
    stats = {"lr": int(bool(lr_m and lr_f))}

    def out_lr(p, w):
        try:
            return ("ok", p.parse(w))
        except parglare.SyntaxError as e:
            return ("err", e.location.start_position)

    def out_glr(p, w):
        try:
            f = p.parse(w)
        except parglare.SyntaxError as e:
            return ("err", e.location.start_position)
        try:
            n = len(f)
        except LoopError:
            return ("loop",)
        return ("ok", n, [p.call_actions(f[i]) for i in range(min(n, 16))])

    alpha = params.get("alphabet")

    def h(w: str):
        n = length_of(w, N)
        if alpha:
            for i in range(n):
                if w[i] not in alpha:
                    raise Pre()  # case folding of symbolic characters is expensive: letters of the grammar in both cases + layout + one foreign
        a, b = out_glr(glr_m, w), out_glr(glr_f, w)
        if a != b:
            return "GLR: imported grammar gives %r, flattened %r" % (a, b)
        if lr_m and lr_f:
            a2, b2 = out_lr(lr_m, w), out_lr(lr_f, w)
            if a2 != b2:
                return "LR: imported grammar gives %r, flattened %r" % (a2, b2)
        elif bool(lr_m) != bool(lr_f):
            return "LR parser constructs for only one of the two grammars"
        bump(stats, a[0])
        return True

    h.stats = stats
    h.expect = [] if twin else ["ok", "err"]
    h.stubs = ["realize_atomic", "get_context"]
    return h
