"""C07 - token choice follows the documented lexical disambiguation order."""
import itertools
import re

import parglare
import parglare.tables as T
from parglare import GLRParser, Grammar, Parser
from parglare.exceptions import DisambiguationError
from parglare.grammar import RegExRecognizer, StringRecognizer

from vp import pyre
from vp.symx import Pre, Skip

from .common import bump, length_of

INFO = {
    "level": "other",
    "explanation": "Bounded symbolic execution of the real scanner (LRTable.sort_state_actions / calc_finish_flags, "
    "Parser._next_token/_next_tokens/_token_recognition/_lexical_disambiguation, String/RegEx recognisers; GLR "
    "_find_lookaheads with lexical_disambiguation off).  Per pool of 4 terminals (strings, regexes, a custom Python "
    "recogniser, a KEYWORD-derived keyword) placed in a skeleton whose three states expect different subsets, the "
    "terminal priorities (0..1 quick, 0..2 thorough, symbolic, enumerated by the solver because the sort key formats them), the `prefer` "
    "bits (symbolic) and the input w (symbolic, len <= 3) vary; finish/nofinish marks are the concrete case split.  "
    "The table's action order and finish flags are recomputed by the real LRTable code inside every path.  Outcome "
    "of the real LR parser (token sequence with values / DisambiguationError with its token set / SyntaxError) must "
    "equal the documented order evaluated by a reference over the expected terminals of the state: highest priority, "
    "string/keyword over regex, longest, prefer, else ambiguous.  With lexical disambiguation off the set of "
    "(terminal, value) over the GLR forest's trees must equal all matching expected terminals of the highest matching "
    "priority.  Where a matching candidate carries an explicit finish/nofinish mark (LR): the scan follows the documented "
    "order (strings/keywords longest first, then other recognisers; order within equal rank left open) and ends at the first "
    "match that finishes (marked finish, or an unmarked string/keyword; nofinish never ends it); the outcome must be "
    "longest-match/prefer over one of the candidate sets admissible that way.  GLR with marks: only the weaker statement "
    "(every pursued terminal matches and has the highest matching priority).  The table is also taken through the real "
    "table_to_serializable/table_from_serializable round trip (what a .pgc load gives) before parsing.",
    "bounds": {
        "quick": {"pools": "5 in the 3-state skeleton + 3 in a flat skeleton (all four terminals expected in one LR state)", "priorities": "0..1", "len(w)": "<= 3", "marks": "none + 2 mark vectors on one pool (3-state) + finish/nofinish on the last-sorted terminal of a flat pool with priorities 1..2", "persisted": "1 pool, LR and GLR"},
        "thorough": {"pools": 12, "priorities": "0..2", "len(w)": "<= 3", "ignore_case": "both"},
    },
    "outside": "priorities >= 10^7 or string terminals >= 500 chars (fixed-width sort key), more than 4 candidate "
    "terminals per state, inputs longer than 3, non-ASCII input where a regex is involved",
    "assumptions": [
        "regex terminals run on the validated regex model vp/pyre.py (pattern text = what the real code compiled); input chars <= 0x7f",
        "terminal attributes are assigned on the Terminal objects of a grammar parsed once; the LR automaton is built once "
        "(terminal priorities do not enter it) and LRTable(states) is re-run per path",
        "explicit finish/nofinish on a matching candidate: the order of equal-rank terminals in the scan is left open (all admissible candidate sets accepted)",
    ],
}

MANIFEST = {
    "level_text": "Bounded symbolic execution of the real scanner code with symbolic input, symbolic prefer bits and "
    "solver-enumerated priorities; path-exhaustive per terminal pool; compared with a reference of the documented "
    "lexical order over the expected terminals of each state.",
    "level_note": "Trusted: CrossHair proxies, z3, the regex model (validated against re on every run), the 40-line "
    "reference of the documented order.  Bounds: 4 terminals per pool, priorities 0..1 (0..2 in thorough), len(w) <= 3.",
}

# pools: slot -> (kind, text).  kinds: s = string, r = regex, c = custom recogniser, k = string that becomes a keyword
POOLS = {
    "str-vs-regex": {"A": ("s", "a"), "B": ("s", "ab"), "C": ("r", "[a-c]+"), "D": ("r", "[a-b]+")},
    "regex-overlap": {"A": ("r", "a|ab"), "B": ("r", "[a-b]+"), "C": ("r", "[a-c]+"), "D": ("s", "b")},
    "strings": {"A": ("s", "a"), "B": ("s", "ab"), "C": ("s", "abc"), "D": ("s", "b")},
    "custom": {"A": ("c", "aa"), "B": ("s", "a"), "C": ("r", "a+"), "D": ("r", "[a-b]+")},
    "keyword": {"A": ("k", "ab"), "B": ("r", "[a-c]+"), "C": ("s", "a."), "D": ("r", "[a-b]+")},
    "regex-equal-len": {"A": ("r", "a[a-c]"), "B": ("r", "[a-b]b"), "C": ("s", "a"), "D": ("r", "ab?")},
    "str-prefix-regex": {"A": ("s", "abc"), "B": ("r", "ab"), "C": ("r", "a"), "D": ("s", "c")},
    "two-custom": {"A": ("c", "ab"), "B": ("c", "a"), "C": ("s", "ab"), "D": ("r", "a[a-c]*")},
    "keyword-2": {"A": ("k", "a"), "B": ("k", "ab"), "C": ("r", "[a-c]+"), "D": ("s", "a-")},
    "strings-2": {"A": ("s", "aa"), "B": ("s", "a"), "C": ("r", "a+"), "D": ("r", "aa?")},
    "case": {"A": ("s", "a"), "B": ("s", "Ab"), "C": ("r", "[a-c]+"), "D": ("r", "[A-B]+")},
    "regex-only": {"A": ("r", "a"), "B": ("r", "ab?"), "C": ("r", "[a-c]+"), "D": ("r", "a[a-c]?")},
    # a keyword and a non-keyword string extending it by one character; a shorter regex next to two tying longer ones
    "keyword-ext": {"A": ("k", "ab"), "B": ("s", "ab-"), "C": ("r", "[a-c]+"), "D": ("s", "a")},
    "short-prefer": {"A": ("r", "a"), "B": ("r", "a[a-c]"), "C": ("r", "[a-b]b?"), "D": ("r", "ab?")},
}
SLOTS = ["A", "B", "C", "D"]
ALPHA = "abcAx y.-"


def custom_rec(text):
    def rec(input, pos):
        if input[pos : pos + len(text)] == text:
            return input[pos : pos + len(text)]
        return None

    return rec


def grammar_text(pool, keyword):
    lines = ["S: 'x' G1 | 'y' G2 | G3;", "G1: A | B;", "G2: B | C | D;", "G3: A | D;", "terminals"]
    for s in SLOTS:
        kind, text = pool[s]
        if kind in ("s", "k"):
            lines.append("%s: '%s';" % (s, text))
        elif kind == "r":
            lines.append("%s: /%s/;" % (s, text))
        else:
            lines.append("%s: ;" % s)
    if keyword:
        lines.append("KEYWORD: /[a-z]+/;")
    return "\n".join(lines)


GLR_TEXT_HEAD = "S: A | B | C | D;"


def cases(tier, seed):
    out = []
    names = list(POOLS)
    if tier == "quick":
        sel = ["str-vs-regex", "regex-overlap", "custom", "keyword", "strings-2"]
        prmax = 1
    else:
        sel = names
        prmax = 2
    for pn in sel:
        for mode in ("lr", "glr"):
            # split over the priority of slot A (concrete) to parallelise; the union is the stated range
            for pa in range(prmax + 1):
                for pb in (range(prmax + 1) if mode == "lr" else [None]):
                    out.append({
                        "name": "%s|%s|prior(A)=%d%s" % (pn, mode, pa, "" if pb is None else "|prior(B)=%d" % pb),
                        "params": {"pool": pn, "mode": mode, "pa": pa, "pb": pb, "prmax": prmax, "marks": [None] * 4, "icase": False},
                        "budget_s": 3000,
                    })
    flat_pools = ["regex-overlap", "keyword-ext", "short-prefer"] if tier == "quick" else ["regex-overlap", "keyword-ext", "short-prefer", "str-vs-regex", "regex-equal-len", "regex-only", "two-custom"]
    for pn in flat_pools:
        for pa in range(prmax + 1):
            for pb in range(prmax + 1):
                out.append({
                    "name": "%s|lr-flat|prior(A)=%d|prior(B)=%d" % (pn, pa, pb),
                    "params": {"pool": pn, "mode": "lr", "skel": "flat", "pa": pa, "pb": pb, "prmax": prmax, "marks": [None] * 4, "icase": False},
                    "budget_s": 3000,
                })
    markvecs = [[False, None, None, None], [None, None, True, None], [None, False, None, True]]
    for pn in (["str-vs-regex"] if tier == "quick" else ["str-vs-regex", "custom", "strings-2"]):
        for mv in markvecs[: 2 if tier == "quick" else 3]:
            for pa in range(prmax + 1):
                for pb in range(prmax + 1):
                    out.append({
                        "name": "%s|lr|marks=%s|prior(A)=%d|prior(B)=%d" % (pn, "".join("-" if m is None else "FN"[not m] for m in mv), pa, pb),
                        "params": {"pool": pn, "mode": "lr", "pa": pa, "pb": pb, "prmax": prmax, "marks": mv, "icase": False},
                        "budget_s": 3000,
                    })
    # a finish/nofinish mark on the terminal that sorts last of its priority group, over a lower non-zero priority
    for pn in (["regex-overlap"] if tier == "quick" else ["regex-overlap", "short-prefer", "regex-only"]):
        for mv in ([True, None, None, None], [False, None, None, None]):
            for pa in (1, 2):
                for pb in (1, 2):
                    out.append({
                        "name": "%s|lr-flat|marks=%s|prior 1..2|prior(A)=%d|prior(B)=%d" % (pn, "".join("-" if m is None else "FN"[not m] for m in mv), pa, pb),
                        "params": {"pool": pn, "mode": "lr", "skel": "flat", "pa": pa, "pb": pb, "prmin": 1, "prmax": 2, "marks": mv, "icase": False},
                        "budget_s": 3000,
                    })
    # the table saved and loaded back through the real (de)serialisation, as from a .pgc file
    for pn in (["str-vs-regex"] if tier == "quick" else ["str-vs-regex", "regex-overlap", "keyword"]):
        for mode in ("lr", "glr"):
            for pa in range(prmax + 1):
                out.append({
                    "name": "%s|%s|persisted table|prior(A)=%d" % (pn, mode, pa),
                    "params": {"pool": pn, "mode": mode, "pa": pa, "pb": None, "prmax": prmax, "marks": [None] * 4, "icase": False, "persist": True},
                    "budget_s": 3000,
                })
    if tier != "quick":
        for pn in ("case", "str-vs-regex"):
            for pa in range(prmax + 1):
                out.append({
                    "name": "%s|lr|icase|prior(A)=%d" % (pn, pa),
                    "params": {"pool": pn, "mode": "lr", "pa": pa, "prmax": prmax, "marks": [None] * 4, "icase": True},
                    "budget_s": 3000,
                })
    out.append({
        "name": "twin:str-vs-regex|lr", "expect_refuted": True, "budget_s": 600,
        "params": {"pool": "str-vs-regex", "mode": "lr", "pa": 1, "prmax": 1, "marks": [None] * 4, "icase": False, "twin": True},
    })
    return out


def build(params, symbolic):
    pool = POOLS[params["pool"]]
    mode = params["mode"]
    icase = params.get("icase", False)
    marks = params["marks"]
    twin = params.get("twin")
    keyword = any(k == "k" for k, _ in pool.values())
    recs = {s: custom_rec(pool[s][1]) for s in SLOTS if pool[s][0] == "c"}
    flat = params.get("skel") == "flat"
    if mode == "lr" and not flat:
        text = grammar_text(pool, keyword)
    else:
        text = grammar_text(pool, keyword).replace("S: 'x' G1 | 'y' G2 | G3;\nG1: A | B;\nG2: B | C | D;\nG3: A | D;", GLR_TEXT_HEAD)
    grammar = Grammar.from_string(text, recognizers=recs or None, ignore_case=icase)
    terms = {s: grammar.get_terminal(s) for s in SLOTS}
    if symbolic:
        pats = pyre.install(grammar, ALPHA, 4)
    else:
        pats = []
    # automaton once (terminal priorities/marks do not enter it)
    if mode == "lr":
        base = Parser(grammar, consume_input=False, build_tree=True)
    else:
        base = GLRParser(grammar, consume_input=False)
    states = base.table.states
    from collections import OrderedDict

    orig_actions = [(st, list(st.actions.items())) for st in states]
    xt, yt = grammar.get_terminal("x"), grammar.get_terminal("y")
    stats = {}

    # ------------------------------------------------------------- reference of the documented order
    def is_stringlike(s):
        return pool[s][0] in ("s", "k")

    def match_len(s, w, n, pos):
        """Length of the match of slot terminal s at pos, via the terminal's own recogniser."""
        if pos >= n:
            return None
        r = terms[s].recognizer(w, pos)
        if r:
            return len(r)
        return None

    def choose(expected, w, n, pos, prio, prefer):
        """Returns ('tok', slot, length) | ('amb', {slots}) | ('none',) | ('weak', {matching top-priority slots})"""
        m = {}
        for s in expected:
            L = match_len(s, w, n, pos)
            if L:
                m[s] = L
        if not m:
            return ("none",)
        top = max(prio[s] for s in m)
        m1 = {s: L for s, L in m.items() if prio[s] == top}
        marked = [s for s in m1 if marks[SLOTS.index(s)] is not None]
        if mode == "glr":
            if any(marks[SLOTS.index(s)] is not None for s in m):
                return ("weak", set(m1))
            return ("all", m1)
        if not marked and any(marks[SLOTS.index(s)] is not None for s in m):
            marked = ["-"]  # a marked lower-priority match: same treatment, no extra candidate sets
        if marked:
            # Explicit marks alter the scan.  The scan follows the documented order (strings/keywords, longest
            # first, then the other recognisers; the order within equal rank is left open here) and ends at the
            # first match that finishes: a terminal marked `finish`, or an unmarked string/keyword; `nofinish`
            # never ends it.  The candidates are the matches up to there; longest-match/prefer decide among
            # them.  Every candidate set admissible under some order of equal-rank terminals is evaluated; the
            # real outcome must be one of them.
            def rank(s):
                return (0, -len(pool[s][1])) if is_stringlike(s) else (1, 0)

            def finisher(s):
                mk = marks[SLOTS.index(s)]
                return mk is True or (mk is None and is_stringlike(s))

            sets = []
            for perm in itertools.permutations(sorted(m1)):
                if any(rank(perm[k]) > rank(perm[k + 1]) for k in range(len(perm) - 1)):
                    continue
                sub = {}
                for s in perm:
                    sub[s] = m1[s]
                    if finisher(s):
                        break
                if sub not in sets:
                    sets.append(sub)
            return ("multi", [longest_prefer(sub, prefer) for sub in sets], set(m1))
        return doc_order(m1, prefer)

    def doc_order(m1, prefer):
        strs = {s: L for s, L in m1.items() if is_stringlike(s)}
        m2 = strs if strs else m1
        if twin:
            m2 = m1
        return longest_prefer(m2, prefer)

    def longest_prefer(m2, prefer):
        longest = max(m2.values())
        m3 = [s for s, L in m2.items() if L == longest]
        if len(m3) > 1:
            pf = [s for s in m3 if prefer[s]]
            if pf:
                m3 = pf
        if len(m3) == 1:
            return ("tok", m3[0], m2[m3[0]])
        return ("amb", set(m3))

    def skip(w, n, pos):
        while pos < n and w[pos] in "\n\r\t ":
            pos += 1
        return pos

    def body(w, pb, pc, pd, fa, fb, fc, fd):
        n = length_of(w, 3)
        for i in range(n):
            if w[i] > "\x7f":
                raise Pre()
        prio = {"A": params["pa"], "B": pb, "C": pc, "D": pd}
        if params.get("pb") is not None and pb != params["pb"]:
            raise Pre()  # this worker's slice of the priority range
        for s in "BCD":
            if prio[s] < params.get("prmin", 0) or prio[s] > params["prmax"]:
                raise Pre()
        prefer = {"A": fa, "B": fb, "C": fc, "D": fd}
        for k, s in enumerate(SLOTS):
            terms[s].prior = prio[s]
            terms[s].prefer = prefer[s]  # symbolic bool: decided by the solver only where the real code reads it
            terms[s].finish = marks[k]
        for st, items in orig_actions:  # same starting order on every path (engine requires determinism)
            st.actions = OrderedDict(items)
        table = T.LRTable(states, lexical_disambiguation=(mode == "lr"))
        if params.get("persist"):
            # what a user of a grammar file gets from the second construction on: the table saved and loaded back
            from parglare.tables.persist import table_from_serializable, table_to_serializable

            ser = table_to_serializable(table)
            table = table_from_serializable(ser, grammar)
        if mode == "lr":
            parser = Parser(grammar, table=table, consume_input=False, build_tree=True)
        else:
            parser = GLRParser(grammar, table=table, consume_input=False, lexical_disambiguation=False)
        # ---- real outcome
        try:
            res = parser.parse(w)
            if mode == "lr":
                lv = []

                def walk(nd):
                    if nd.is_term():
                        lv.append((nd.symbol.name, nd.value))
                    else:
                        for c in nd:
                            walk(c)

                walk(res)
                real = ("ok", lv)
            else:
                got = set()
                for t in res:
                    nd = t
                    while nd.is_nonterm():
                        nd = nd.children[0]
                    got.add((nd.symbol.name, len(nd.value)))
                real = ("ok", got)
        except DisambiguationError as e:
            real = ("amb", {t.symbol.name for t in e.tokens})
        except parglare.SyntaxError as e:
            real = ("syntax", e.location.start_position)
        # ---- reference outcome
        pos = skip(w, n, 0)
        if mode == "glr":
            c = choose(SLOTS, w, n, pos, prio, prefer)
            if c[0] == "none":
                if real[0] != "syntax":
                    return "no expected terminal matches but outcome is %r" % (real,)
                bump(stats, "none")
                return True
            if real[0] != "ok":
                return "terminals %r match but outcome is %r" % (c, real)
            if c[0] == "weak":
                if not (real[1] and {s for s, _ in real[1]} <= c[1]):
                    return "marked candidates: pursued %r not within top-priority matches %r" % (real[1], c[1])
                bump(stats, "weak")
                return True
            want = {(s, L) for s, L in c[1].items()}
            if real[1] != want:
                return "GLR pursued %r, expected every top-priority match %r" % (sorted(real[1]), sorted(want))
            bump(stats, "glr_multi" if len(want) > 1 else "glr_single")
            return True
        # LR: first token among {A, D, x, y} (3-state skeleton) or among all four (flat skeleton)
        seq = []
        state_exp = ["A", "D"]
        if flat:
            state_exp = list(SLOTS)
        # 'x' / 'y' are plain string terminals of default priority 10 > any pool priority
        first = None
        if pos < n and not flat:
            if xt.recognizer(w, pos):
                first = "x"
            elif yt.recognizer(w, pos):
                first = "y"
        if first:
            seq.append((first, w[pos : pos + 1]))
            pos = skip(w, n, pos + 1)
            state_exp = ["A", "B"] if first == "x" else ["B", "C", "D"]
        c = choose(state_exp, w, n, pos, prio, prefer)
        if c[0] == "none":
            if real != ("syntax", pos):
                return "nothing matches at %d but outcome is %r" % (pos, real)
            bump(stats, "none")
            return True
        if c[0] == "amb":
            if real[0] != "amb" or real[1] != c[1]:
                return "expected DisambiguationError over %r at %d, outcome %r" % (sorted(c[1]), pos, real)
            bump(stats, "ambiguous")
            return True
        if c[0] == "multi":
            for alt in c[1]:
                if alt[0] == "amb":
                    if real[0] == "amb" and real[1] == alt[1]:
                        bump(stats, "marked")
                        return True
                else:
                    _, s, L = alt
                    want = seq + [(s, w[pos : pos + L])]
                    if real[0] == "ok" and len(real[1]) == len(want) and all(a[0] == b[0] and a[1] == b[1] for a, b in zip(real[1], want)):
                        bump(stats, "marked")
                        return True
            return "marked candidates: outcome %r is not the documented order over any admissible candidate set of %r: %r" % (real, sorted(c[2]), c[1])
        _, s, L = c
        want = seq + [(s, w[pos : pos + L])]
        if real[0] != "ok" or len(real[1]) != len(want) or any(a[0] != b[0] or a[1] != b[1] for a, b in zip(real[1], want)):
            return "expected token %s (length %d) at %d, outcome %r" % (s, L, pos, real)
        bump(stats, "token")
        return True

    def h(w: str, pb: int, pc: int, pd: int, fa: bool, fb: bool, fc: bool, fd: bool):
        return body(w, pb, pc, pd, fa, fb, fc, fd)

    h.stats = stats
    h.expect = [] if twin else ["none"]
    h.stubs = ["realize_atomic", "get_context", "regex model for %s" % pats]
    return h
