"""C05 - table construction terminates and is a faithful LR(1)-family table."""
import signal
import time

import parglare.tables as T
from parglare import Grammar
from parglare.closure import LR_0, LR_1

from vp import corpus, horn, reflr
from vp.gspec import GSpec, parse_short

INFO = {
    "level": "translation_validation",
    "solver": "z3 Fixedpoint (Datalog engine), Python API",
    "explanation": "For every grammar of the families the table built natively by the real first/follow/closure/"
    "create_table/merge_states (strategies off) is exported as relations and joined, in z3's Datalog engine, with an "
    "independently built canonical LR(1) automaton: reach(r,i) is the least fixpoint of synchronous moves; three "
    "queries per table - (missing) the reference offers a move/action the state lacks, (core) the state's item core "
    "differs from the reference state's, (over) a reachable state reduces on a terminal outside the LALR(1) "
    "look-ahead of the completed item (FOLLOW for SLR).  unsat on all three = holds for every viable prefix of that "
    "grammar (unbounded length).  sat -> a native product walk locates the witness (replay).  Conflict bookkeeping "
    "(sr_conflicts/rr_conflicts == multi-action cells) is compared natively.  Termination is decided by budgeted "
    "execution (LRState constructions <= 8*(reference states+transitions)+64, 20 s wall), not by the solver.",
    "bounds": {
        "quick": {"grammars": "all GF-tiny(3) + GF-shapes + 1500 stratified GF-tiny(4) + 600 seeded random grammars (3 nonterminals, 5-8 productions), LALR and SLR; LAYOUT-start variants of the shapes"},
        "thorough": {"grammars": "+ all GF-tiny(4) (2 nonterminals) and 3000 seeded random grammars with 5-8 productions"},
    },
    "outside": "grammars outside the families; tables built with prefer_shifts strategies, priorities or associativities",
    "assumptions": [
        "reference automaton vp/reflr.py (textbook canonical LR(1); LALR look-aheads = union over equal LR(0) cores)",
        "a refutation twin (one implementation action withheld from the encoding) must come back sat on every run",
        "every Datalog program is also exported as SMT-LIB2 and decided by the independent /usr/bin/z3 4.8.12 binary; a disagreement is a harness error",
        "termination clause: budgeted execution only",
    ],
    "rule": "one evaluation = one Datalog query; distinct_nontrivial = tables whose product automaton has more than "
    "one reachable state pair and whose three queries were all decided",
}

MANIFEST = {
    "engine": "z3-direct",
    "technique": "z3 Datalog fixpoint queries over the table produced by the real create_table vs. a reference canonical LR(1) automaton (translation validation); termination by budgeted execution",
    "level_text": "Translation validation of the real table constructor: per grammar and table kind the solver decides, "
    "for ALL viable prefixes (a least-fixpoint reachability query, no length bound), that nothing the canonical "
    "LR(1) automaton offers is missing and that no reduction is offered outside the LALR(1)/FOLLOW look-ahead.  The "
    "bound is the grammar family, enumerated exhaustively.",
    "level_note": "Trusted: z3's Datalog engine, the exporter (reads state.actions/gotos/items), the reference "
    "construction.  A witness found after `sat` is re-derived by an independent native product walk before it is "
    "reported.  Termination is a budgeted-execution by-product, stated as such.",
}


def _chunks(xs, n):
    return [xs[k : k + n] for k in range(0, len(xs), n)]


def layout_variant(g):
    """M: x; LAYOUT: <g with its start symbol renamed LAYOUT>  - exercised with start production LAYOUT."""
    ren = lambda s: "LAYOUT" if s == g.start else ("M" if s == "M" else s)  # noqa
    prods = [("M", ("x",))] + [(ren(l), tuple(ren(s) for s in r)) for l, r in g.prods]
    terms = dict(g.terms)
    terms["x"] = ("s", "x")
    return GSpec(prods, terms, name="layout:" + g.name)


def random_grammars(count, seed):
    return corpus.random_grammars(count, seed)


def cases(tier, seed):
    out = []
    gs = corpus.gf_tiny(3) + corpus.shapes()
    lay = [layout_variant(g) for g in corpus.shapes()]
    if tier == "quick":
        gs = gs + corpus.stratified(corpus.gf_tiny(4), 1500, seed) + random_grammars(600, seed)
    else:
        gs = gs + corpus.gf_tiny(4) + random_grammars(3000, seed)
        lay = lay + [layout_variant(g) for g in corpus.stratified(corpus.gf_tiny(3), 200, seed)]
    for kind in ("LALR", "SLR"):
        for n, ch in enumerate(_chunks(gs, 60)):
            out.append({
                "name": "%s|main|batch%03d" % (kind, n),
                "params": {"grammars": [g.short() for g in ch], "tables": kind, "start": "main"},
                "wall_cap_s": 1500,
            })
        for n, ch in enumerate(_chunks(lay, 60)):
            out.append({
                "name": "%s|LAYOUT|batch%03d" % (kind, n),
                "params": {"grammars": [g.short() for g in ch], "tables": kind, "start": "LAYOUT"},
                "wall_cap_s": 1500,
            })
    seqs = [g.short() for g in lay[: (40 if tier == "quick" else 200)]]
    for n, ch in enumerate(_chunks(seqs, 20)):
        out.append({"name": "same-grammar-object|batch%02d" % n, "params": {"grammars": ch, "tables": "SEQ", "start": "SEQ"}, "wall_cap_s": 1500})
    out.append({
        "name": "twin:LALR|expr",
        "params": {"grammars": [corpus.shape("expr").short()], "tables": "LALR", "start": "main", "twin": True},
        "expect_refuted": True,
    })
    return out


class _Timeout(Exception):
    pass


def build_table(spec, kind, start, ref, grammar=None):
    """Real create_table under a construction budget.  Returns (table, constructions)."""
    if grammar is None:
        grammar = Grammar.from_string(spec.text())
    budget = 8 * (len(ref.states) + len(ref.trans)) + 64
    count = [0]
    orig = T.LRState.__init__

    def counting(self, *a, **k):
        count[0] += 1
        if count[0] > budget:
            raise horn.Budget("more than %d LRState constructions (reference automaton: %d states, %d transitions)" % (
                budget, len(ref.states), len(ref.trans)))
        orig(self, *a, **k)

    def on_alarm(signum, frame):
        raise _Timeout()

    T.LRState.__init__ = counting
    old = signal.signal(signal.SIGALRM, on_alarm)
    signal.setitimer(signal.ITIMER_REAL, 20)
    try:
        sp = 1 if start == "main" else grammar.get_production_id("LAYOUT")
        table = T.create_table(
            grammar, itemset_type=LR_1 if kind == "LALR" else LR_0, start_production=sp,
            prefer_shifts=False, prefer_shifts_over_empty=False,
        )
    except _Timeout:
        raise horn.Budget("table construction exceeded 20 s wall clock")
    finally:
        signal.setitimer(signal.ITIMER_REAL, 0)
        signal.signal(signal.SIGALRM, old)
        T.LRState.__init__ = orig
    return table, count[0]


def bookkeeping(table):
    """sr_conflicts / rr_conflicts list exactly the multi-action cells (native comparison)."""
    multi = set()
    for s in table.states:
        for t, acts in s.actions.items():
            if len(acts) > 1:
                # a cell holding exactly one empty and one non-empty reduction is resolved silently by the parser
                kinds = [a.action for a in acts]
                if kinds[0] != 1:
                    multi.add((s.state_id, t.name))
                else:
                    ne = [a for a in acts if len(a.prod.rhs)]
                    em = [a for a in acts if not len(a.prod.rhs)]
                    if len(ne) > 1 or len(em) > 1:
                        multi.add((s.state_id, t.name))
    listed = {(c.state.state_id, c.term.name) for c in list(table.sr_conflicts) + list(table.rr_conflicts)}
    if listed != multi:
        return "conflict lists %s differ from the multi-action cells %s" % (sorted(listed), sorted(multi))
    return None


SEQUENCE = [("SLR", "LAYOUT"), ("SLR", "main"), ("LALR", "LAYOUT"), ("LALR", "main"), ("SLR", "main"), ("SLR", "LAYOUT")]


def check_sequence(gshort):
    """Several tables built one after the other on ONE Grammar object (as Parser() does for a grammar with a LAYOUT
    rule): every one of them must be faithful - nothing cached on the grammar may depend on an earlier build."""
    spec = parse_short(gshort)
    grammar = Grammar.from_string(spec.text())
    total = {"status": "holds", "solver_s": 0.0, "facts": 0, "verdicts": {}, "states": 0, "ref_states": 0, "pairs": 0}
    for kind, start in SEQUENCE:
        r = check_one(gshort, kind, start, grammar=grammar)
        total["solver_s"] += r.get("solver_s", 0.0)
        total["facts"] += r.get("facts", 0)
        total["pairs"] += r.get("pairs", 0)
        total["states"] += r.get("states", 0)
        total["ref_states"] += r.get("ref_states", 0)
        total["verdicts"]["%s/%s" % (kind, start)] = r.get("verdicts")
        if r["status"] != "holds":
            r["detail"] = "table %s/%s built after %s on the same Grammar object: %s" % (kind, start, SEQUENCE[: SEQUENCE.index((kind, start))], r.get("detail"))
            return r
    return total


def check_one(gshort, kind, start, twin=False, grammar=None):
    if kind == "SEQ":
        return check_sequence(gshort)
    spec = parse_short(gshort)
    ref = reflr.RefLR(spec, start=("LAYOUT" if start == "LAYOUT" else None))
    try:
        table, nconstr = build_table(spec, kind, start, ref, grammar=grammar)
    except horn.Budget as e:
        return {"status": "violation", "detail": "table construction does not terminate within the reference-derived budget: %s" % e}
    rel = horn.export_table(table, spec, ref)
    drop = None
    if twin:
        (k, t), aset = sorted(rel["acts"].items(), key=str)[len(rel["acts"]) // 2]
        drop = (k, t, sorted(aset)[0])
    q = horn.encode_and_query(ref, rel, kind, drop_action=drop)
    verdicts = q["queries"]
    out = {"status": "holds", "solver_s": q["solver_s"], "facts": q["facts"], "verdicts": verdicts, "states": rel["n"], "ref_states": len(ref.states)}
    if any(v not in ("sat", "unsat") for v in verdicts.values()):
        out["status"] = "unknown"
        return out
    second = q.get("second_solver", {})
    out["second_solver"] = "skipped" if "skipped" in second else "agrees"
    if "skipped" not in second and second != verdicts:
        out["status"] = "error"
        out["detail"] = "two solvers disagree: z3 5.1 (API) %r, z3 4.8.12 (binary, SMT-LIB2 export) %r" % (verdicts, second)
        return out
    pairs, problems = horn.native_product(ref, rel, kind)
    out["pairs"] = pairs
    sat = [n for n, v in verdicts.items() if v == "sat"]
    if sat:
        kinds = {p[0] for p in problems}
        if twin:
            out["status"] = "violation"
            out["detail"] = "twin: withheld action %r detected by query %s" % (drop, sat)
            return out
        if not set(sat) <= kinds:
            out["status"] = "error"
            out["detail"] = "solver says sat for %s but the native product walk finds only %s" % (sat, sorted(kinds))
            return out
        out["status"] = "violation"
        out["detail"] = "; ".join(p[2] for p in problems[:3])
        return out
    if problems and not twin:
        out["status"] = "error"
        out["detail"] = "solver says unsat but the native product walk reports %s" % (problems[0][2],)
        return out
    bk = bookkeeping(table)
    if bk:
        out["status"] = "violation"
        out["detail"] = bk
        return out
    lalr1 = ref.is_lalr1()
    if kind == "LALR" and lalr1 and (table.sr_conflicts or table.rr_conflicts):
        out["status"] = "violation"
        out["detail"] = "LALR(1) grammar but the table reports conflicts"
    out["lalr1"] = lalr1
    return out


def run_case(params):
    kind, start = params["tables"], params["start"]
    res = {"paths": 0, "confirmed": 0, "nontrivial": 0, "ignored": 0, "unknown": 0, "refuted": 0, "exhausted": True,
           "cpu_s": 0.0, "solver_calls": 0, "solver_s": 0.0, "solver_unknown": 0, "counterexamples": [], "samples": [],
           "unknown_reasons": [], "stopped": None}
    t0 = time.process_time()
    programs = 0
    second_agree = [0]
    for gshort in params["grammars"]:
        r = check_one(gshort, kind, start, twin=bool(params.get("twin")))
        programs += 1
        res["paths"] += 3
        res["solver_calls"] += 3
        res["solver_s"] += r.get("solver_s", 0.0)
        if r.get("second_solver") == "agrees":
            second_agree[0] += 1
        if r["status"] == "holds":
            res["confirmed"] += 3
            if r.get("pairs", 0) > 1:
                res["nontrivial"] += 1
            if len(res["samples"]) < 3:
                res["samples"].append({"args": {"grammar": gshort, "tables": kind, "start": start}, "verdict": "3 queries unsat",
                                       "choices": r.get("pairs"), "table_states": r["states"], "reference_states": r["ref_states"], "facts": r["facts"]})
        elif r["status"] == "violation":
            res["refuted"] += 1
            res["counterexamples"].append({"args": {"grammar": gshort, "tables": kind, "start": start}, "detail": r["detail"]})
        elif r["status"] == "unknown":
            res["unknown"] += 1
            res["unknown_reasons"].append("%s: %s" % (gshort, r.get("verdicts")))
        else:
            raise AssertionError("%s: %s" % (gshort, r.get("detail")))
    res["cpu_s"] = round(time.process_time() - t0, 2)
    res["solver_s"] = round(res["solver_s"], 2)
    res["holds"] = res["refuted"] == 0 and res["unknown"] == 0 and res["confirmed"] > 0
    return {"result": res, "coverage_extra": {"programs": programs, "disagreements_checked": res["refuted"], "second_solver_agreements": second_agree[0]},
            "functions": ["tables/__init__.py:create_table", "tables/__init__.py:first", "tables/__init__.py:follow",
                          "closure.py:closure", "closure.py:_new_item_follow", "tables/__init__.py:merge_states",
                          "tables/__init__.py:LRTable.__init__", "tables/__init__.py:LRTable.calc_conflicts_and_dynamic_terminals"],
            "stubs": ["LRState.__init__ counting wrapper (termination budget)"]}


def replay(rec):
    a = rec["args"]
    r = check_one(a["grammar"], a["tables"], a["start"], twin=bool(rec.get("params", {}).get("twin")))
    if r["status"] == "violation":
        return True, r["detail"]
    return False, "table is faithful on replay (%s)" % r.get("verdicts")


def replay_known(k):
    still = []
    for gshort in k["inputs"]:
        r = check_one(gshort, k["params"]["tables"], k["params"]["start"])
        if r["status"] == "violation":
            still.append(gshort)
    return still
