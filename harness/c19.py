"""C19 - string terminals match their literal text; KEYWORD adds whole-word matching."""
import itertools
import re

import parglare
from parglare import Grammar, Parser
from parglare.exceptions import DisambiguationError, GrammarError
from parglare.tables.persist import table_to_serializable

from vp import pyre
from vp.symx import Pre, Skip

from .common import bump, length_of

INFO = {
    "level": "other",
    "explanation": "Programs (concrete, enumerated): string terminal texts over letters, digits and punctuation (regex "
    "metacharacters, dots, quotes, backslash, names of other symbols), inline and declared form, without KEYWORD and with "
    "KEYWORD in {/\\w+/, /[a-z]+/, /[^ ]+/}, in the skeleton S: Item+; Item: <text> | ID; ID: /[a-z_][a-z0-9_]*/.  The "
    "text cannot be symbolic (it passes through parglare's own grammar parser, whose terminals are regexes).  Natively per "
    "text: inline and declared forms construct and their tables are equal up to the terminal's name.  Symbolically per "
    "program: input w (ASCII, len <= N) through the real LR parser; the token sequence it shifts (terminal, value) or the "
    "position of its SyntaxError must equal a reference scanner: literal match of the text, plus - exactly when the "
    "KEYWORD regex fully matches the text - no word character immediately before or after; string/keyword preferred over "
    "the identifier regex.  Keyword recognisers run the regex model on the pattern the real code generated.  Programs in "
    "the classes listed as known findings (by call site) are not explored symbolically; a representative of each class is "
    "replayed natively.",
    "bounds": {"quick": {"texts": 20, "N": "min(4, len(text)+2)", "ignore_case": "text 'if' declared, with and without KEYWORD, N=3 over {i I f F x space}"}, "thorough": {"texts": "+ all 1-2 character texts over {a 1 _ + * ( ) [ ] | $ ^ - \" ' \\}", "N": 4, "ignore_case": "both"}},
    "outside": "texts containing layout characters (their boundaries depend on layout); inputs longer than N; non-ASCII input",
    "assumptions": ["get_context stubbed; realize-atomic marks", "regex model for ID and the generated keyword patterns (validated against re at build time)"],
}

MANIFEST = {
    "technique": 'bounded symbolic execution of the real scanner on symbolic input per enumerated (text, form, KEYWORD) program (CrossHair engine + z3, validated regex model); inline==declared by native differential',
    "level_text": "Bounded symbolic execution of the real scanner on symbolic ASCII input for each enumerated (text, form, "
    "KEYWORD) program, against a 30-line reference scanner; a native differential for 'inline == declared'.",
    "level_note": "Trusted: CrossHair proxies, z3, regex model (validated), reference scanner.  Four classes of programs are "
    "known findings (inline text with a dot; inline text equal to a symbol name - pinned by the suite; KEYWORD regexes "
    "matching non-word text; see known_findings.json) and are excluded from the symbolic part.",
}

TEXTS_Q = ["ab", "+", "(", "a|b", "*", ".", "a.b", '"', "'", "\\", "[a]", "c++", "$", "^a", "a-b", "1", "S", "ID", "EMPTY", "if"]
KWS = [None, r"\w+", r"[a-z]+", r"[^ ]+"]
SYMBOL_NAMES = {"S", "Item", "ID", "X", "EMPTY", "STOP", "KEYWORD", "Item_1"}
ID_RE = r"[a-z_][a-z0-9_]*"


def q(t):
    return "'" + t.replace("\\", "\\\\").replace("'", "\\'") + "'"


def grammar_text(text, form, kw, idname="ID"):
    if form == "inline":
        g = "S: Item+;\nItem: %s | %s;\nterminals\n%s: /%s/;\n" % (q(text), idname, idname, ID_RE)
    else:
        g = "S: Item+;\nItem: X | %s;\nterminals\nX: %s;\n%s: /%s/;\n" % (idname, q(text), idname, ID_RE)
    if kw:
        g += "KEYWORD: /%s/;\n" % kw
    return g


def is_keyword(text, kw):
    return bool(kw) and re.fullmatch(kw, text, re.MULTILINE | re.VERBOSE) is not None


def known_class(text, form, kw):
    """Call-site classes recorded in known_findings.json (None = program is explored)."""
    if form == "inline" and "." in text:
        return "inline-dot"
    if form == "inline" and text in SYMBOL_NAMES:
        return "inline-symbol-name"
    if is_keyword(text, kw) and not re.fullmatch(r"\w+", text):
        return "keyword-nonword"
    if re.search(r"\\[\\'\"nt]", text):
        return "backslash-escape"
    return None


def texts_for(tier):
    if tier == "quick":
        return TEXTS_Q
    chars = "a1_+*()[]|$^-\"'\\"
    out = list(TEXTS_Q)
    for L in (1, 2):
        for cs in itertools.product(chars, repeat=L):
            t = "".join(cs)
            if t not in out:
                out.append(t)
    return out


def cases(tier, seed):
    out = []
    N = 4
    texts = texts_for(tier)
    if tier != "quick":
        # 2-character texts: a deterministic third of them per seed keeps the run within budget
        base = [t for t in texts if t in TEXTS_Q or len(t) == 1]
        rest = [t for t in texts if t not in base]
        texts = base + [t for i, t in enumerate(rest) if i % 3 == seed % 3]
    for text in texts:
        for form in ("inline", "declared"):
            for kw in KWS:
                if known_class(text, form, kw):
                    continue
                if tier == "quick" and kw in (r"[a-z]+", r"[^ ]+") and text not in ("ab", "if", "1", "S"):
                    continue
                n_ = min(N, len(text) + 2)  # room for one character before and after the text
                out.append({"name": "%r|%s|kw=%s|N=%d" % (text, form, kw, n_), "params": {"text": text, "form": form, "kw": kw, "N": n_, "icase": False},
                            "budget_s": 1500})
    if tier == "quick":
        # ignore_case with and without KEYWORD on a small stated alphabet
        for kw in (None, r"\w+"):
            out.append({"name": "'if'|declared|kw=%s|icase" % kw, "params": {"text": "if", "form": "declared", "kw": kw, "N": 3, "icase": True,
                                                                            "alphabet": "iIfF x"}, "budget_s": 1500})
    if tier != "quick":
        for text in ["ab", "if", "A+", "a1"]:
            for kw in (None, r"\w+"):
                # case folding of symbolic characters is expensive (measured: N=4 over all ASCII does not exhaust in 1 500 s)
                out.append({"name": "%r|declared|kw=%s|icase" % (text, kw), "params": {"text": text, "form": "declared", "kw": kw, "N": 3, "icase": True,
                                                                                      "alphabet": "aAbBiIfF1+ x"}, "budget_s": 1500})
    # the identifier-like regex terminal under another name (sorting after / before the string terminal's name)
    for text, form, kw in [("if", "inline", r"\w+"), ("if", "declared", r"\w+"), ("ab", "inline", r"[a-z]+"), ("ab", "declared", None), ("+", "inline", None)]:
        for idname in ("zword", "Aid"):
            out.append({"name": "%r|%s|kw=%s|regex named %s" % (text, form, kw, idname),
                        "params": {"text": text, "form": form, "kw": kw, "N": min(N, len(text) + 2), "icase": False, "idname": idname}, "budget_s": 1500})
    out.append({"name": "twin:'if'|declared|kw=\\w+", "params": {"text": "if", "form": "declared", "kw": r"\w+", "N": 3, "icase": False, "twin": True},
                "expect_refuted": True, "budget_s": 600})
    return out


def _isword(c):
    return ("a" <= c <= "z") or ("A" <= c <= "Z") or ("0" <= c <= "9") or c == "_"


def table_shape(grammar, xname):
    p = Parser(grammar)
    ser = table_to_serializable(p.table)
    out = []
    for st in ser:
        acts = sorted((("<X>" if a[0] == xname else a[0]), str(a[1])) for a in st["actions"])
        out.append((("<X>" if st["symbol"] == xname else st["symbol"]), acts, sorted(map(str, st["gotos"]))))
    return out


def build(params, symbolic):
    text, form, kw, N = params["text"], params["form"], params["kw"], params["N"]
    icase = params.get("icase", False)
    twin = params.get("twin")
    idname = params.get("idname", "ID")
    try:
        grammar = Grammar.from_string(grammar_text(text, form, kw, idname), ignore_case=icase)
        other = Grammar.from_string(grammar_text(text, "declared" if form == "inline" else "inline", kw, idname), ignore_case=icase) if not known_class(
            text, "declared" if form == "inline" else "inline", kw) else None
    except GrammarError as e:
        build_error = "grammar with string terminal %r (%s, KEYWORD=%s) does not construct: %s" % (text, form, kw, str(e).replace("\n", " ")[:120])

        def hfail(w: str):
            return build_error

        hfail.stats = {}
        hfail.expect = []
        hfail.stubs = []
        return hfail
    xname = text if form == "inline" else "X"
    oname = "X" if form == "inline" else text
    shape_problem = None
    if other is not None and table_shape(grammar, xname) != table_shape(other, oname):
        shape_problem = "tables of the inline and the declared form differ for text %r" % text
    pats = pyre.install(grammar, "aifb_+ 1", 4) if symbolic else []
    parser = Parser(grammar, build_tree=True)
    xterm = grammar.get_terminal(xname)
    idterm = grammar.get_terminal(idname)
    kwd = is_keyword(text, kw)
    L = len(text)
    stats = {"keyword": int(kwd)}

    def id_match(w, n, pos):
        r = idterm.recognizer(w, pos)
        return len(r) if r else 0

    def x_match(w, n, pos):
        if pos + L > n:
            return False
        seg = w[pos : pos + L]
        if icase:
            if seg.lower() != text.lower():
                return False
        elif seg != text:
            return False
        if kwd and not twin:
            if pos > 0 and _isword(w[pos - 1]):
                return False
            if pos + L < n and _isword(w[pos + L]):
                return False
        return True

    def h(w: str):
        if shape_problem:
            return shape_problem
        n = length_of(w, N)
        alpha = params.get("alphabet")
        for i in range(n):
            if w[i] > "\x7f" or (alpha and w[i] not in alpha):
                raise Pre()
        try:
            tree = parser.parse(w)
            lv = []

            def walk(nd):
                if nd.is_term():
                    lv.append((nd.symbol.name, nd.start_position, nd.end_position))
                else:
                    for c in nd:
                        walk(c)

            walk(tree)
            real = ("ok", lv)
        except parglare.SyntaxError as e:
            real = ("err", e.location.start_position)
        # reference scanner
        pos = 0
        want = []
        err = None
        while True:
            while pos < n and w[pos] in "\n\r\t ":
                pos += 1
            if pos >= n:
                if not want:
                    err = pos
                break
            if x_match(w, n, pos):
                want.append((xname, pos, pos + L))
                pos += L
                continue
            k = id_match(w, n, pos)
            if k:
                want.append((idname, pos, pos + k))
                pos += k
                continue
            err = pos
            break
        if err is not None:
            if real != ("err", err):
                return "reference scanner fails at %d, parser outcome %r" % (err, real)
            bump(stats, "rejected")
            return True
        if real != ("ok", want):
            return "parser shifted %r, reference scanner %r" % (real, want)
        bump(stats, "accepted")
        if any(t[0] == xname for t in want):
            bump(stats, "x_token")
        return True

    h.stats = stats
    h.expect = [] if twin else (["accepted", "rejected", "x_token"] if L <= N else ["accepted", "rejected"])
    h.stubs = ["realize_atomic", "get_context", "regex model for %s" % pats]
    return h


# -------------------------------------------------------------------------------- known findings (native)
def native_failure(text, form, kw):
    """Native bounded check of one program: construction + all strings <= 3 over a small alphabet."""
    h = build({"text": text, "form": form, "kw": kw, "N": 3, "icase": False}, symbolic=False)
    alpha = sorted(set(text) | set("a+ "))
    for L in range(0, 4):
        for cs in itertools.product(alpha, repeat=L):
            try:
                r = h("".join(cs))
            except Pre:
                continue
            except Exception as e:  # noqa
                r = "exception %r" % (e,)
            if not (r is True or r is None):
                return r
    return None


def replay_known(k):
    still = []
    for key in k["inputs"]:
        text, form, kw = k["keys"][key]
        if native_failure(text, form, kw):
            still.append(key)
    return still
