"""Shared pieces of the harnesses."""
import json
import os

import parglare
from parglare import GLRParser, Grammar, Parser
from parglare.tables import LALR, SLR

from vp import corpus, pgx, refcfg
from vp.gspec import GSpec, parse_short
from vp.symx import Pre

VERIF = os.path.dirname(os.path.dirname(os.path.abspath(__file__)))
TABLES = {"LALR": LALR, "SLR": SLR}


def spec_from_params(p):
    """Case params carry the grammar as the short text (plain data) + optional terminals/ws."""
    terms = p.get("terms")
    if terms:
        terms = {k: tuple(v) for k, v in terms.items()}
    return parse_short(p["grammar"], terms=terms, ws=p.get("ws", "\n\r\t "), name=p.get("gname", p["grammar"]))


def length_of(w, N):
    """Concrete length of a symbolic string, bounded by N (forks once per length)."""
    n = len(w)
    if n > N:
        raise Pre()
    for k in range(N + 1):
        if n == k:
            return k
    raise Pre()


def norm(w, n, ws):
    """Input with layout characters removed (the normalised form used to name known findings)."""
    out = []
    for i in range(n):
        c = w[i]
        if not (ws and c in ws):
            out.append(c)
    return out


def norm_in(nw, known):
    """nw (list of possibly-symbolic chars) equals one of the concrete strings in `known`?"""
    for k in known:
        if len(k) == len(nw) and all(a == b for a, b in zip(nw, k)):
            return True
    return False


def norm_prefix_in(nw, known):
    """some listed input is a prefix of nw (used where every extension of a failing prefix fails too: consume_input=False)"""
    for k in known:
        if len(k) <= len(nw) and all(a == b for a, b in zip(nw, k)):
            return True
    return False


def excluded_inputs(pid, gshort):
    """Normalised inputs listed as known findings of `pid` for the grammar with this short text."""
    p = os.path.join(VERIF, "known_findings.json")
    if not os.path.exists(p):
        return []
    with open(p) as f:
        fs = json.load(f).get("findings", [])
    out = []
    for k in fs:
        if k.get("property") == pid and k.get("status", "open") == "open" and k.get("grammar") == gshort:
            out.extend(k.get("inputs", []))
    return out


def bump(stats, key):
    stats[key] = stats.get(key, 0) + 1


def tokenizations(spec, s):
    """All ways to split string s into terminal texts (string terminals only)."""
    if not s:
        return [()]
    out = []
    for t, (kind, val) in spec.terms.items():
        if kind == "s" and val and s.startswith(val):
            for rest in tokenizations(spec, s[len(val):]):
                out.append((t,) + rest)
    return out


def selfcheck_oracle(spec, N):
    """Oracle self-validation (native): Earley acceptance == brute-force language membership for
    every string of length <= N over the grammar's characters.  Raises on disagreement."""
    import itertools

    if any(k != "s" for k, _ in spec.terms.values()):
        return 0
    chars = sorted({c for _, v in spec.terms.values() for c in v})
    L = refcfg.brute_language(spec, N)
    Lbig = None
    cnt = 0
    for n in range(N + 1):
        for cs in itertools.product(chars, repeat=n):
            s = "".join(cs)
            lex, ey = refcfg.analyse(spec, s, n)
            exp = any(tk in L for tk in tokenizations(spec, s))
            cnt += 1
            if ey.accepted != exp and Lbig is None:
                # the cheap enumeration prunes long sentential forms (many nullable symbols): redo it generously once
                Lbig = refcfg.brute_language(spec, N, slack=3 * N + 10)
                L = Lbig
                exp = any(tk in L for tk in tokenizations(spec, s))
            if ey.accepted != exp:
                raise AssertionError("oracle self-validation failed on %r for %s: earley=%s brute=%s" % (s, spec.short(), ey.accepted, exp))
    return cnt


def glr_build(spec, tables, seconds=20, **kw):
    from vp.symx import build_guard

    grammar = Grammar.from_string(spec.text())
    with build_guard(seconds, "parser construction (termination of table construction is C05's subject)"):
        return GLRParser(grammar, tables=TABLES[tables], **kw)


def lr_build(spec, tables, seconds=20, **kw):
    from vp.symx import build_guard

    grammar = Grammar.from_string(spec.text())
    with build_guard(seconds, "parser construction (termination of table construction is C05's subject)"):
        return Parser(grammar, tables=TABLES[tables], **kw)
