"""Shared pieces of the harnesses."""
import json
import os

import parglare
from parglare import GLRParser, Grammar, Parser
from parglare.tables import LALR, SLR

from vp import corpus, pgx, refcfg
from vp.gspec import GSpec, parse_short
from vp.symx import Pre

VERIF = os.path.dirname(os.path.dirname(os.path.abspath(__file__)))
TABLES = {"LALR": LALR, "SLR": SLR}


def spec_from_params(p):
    """Case params carry the grammar as the short text (plain data) + optional terminals/ws."""
    terms = p.get("terms")
    if terms:
        terms = {k: tuple(v) for k, v in terms.items()}
    return parse_short(p["grammar"], terms=terms, ws=p.get("ws", "\n\r\t "), name=p.get("gname", p["grammar"]))


def length_of(w, N):
    """Concrete length of a symbolic string, bounded by N (forks once per length)."""
    n = len(w)
    if n > N:
        raise Pre()
    for k in range(N + 1):
        if n == k:
            return k
    raise Pre()


def norm(w, n, ws):
    """Input with layout characters removed (the normalised form used to name known findings)."""
    out = []
    for i in range(n):
        c = w[i]
        if not (ws and c in ws):
            out.append(c)
    return out


def norm_in(nw, known):
    """nw (list of possibly-symbolic chars) equals one of the concrete strings in `known`?"""
    for k in known:
        if len(k) == len(nw) and all(a == b for a, b in zip(nw, k)):
            return True
    return False


def excluded_inputs(pid, gname):
    p = os.path.join(VERIF, "known_findings.json")
    if not os.path.exists(p):
        return []
    with open(p) as f:
        fs = json.load(f).get("findings", [])
    return [
        k["exclude"]["norm"]
        for k in fs
        if k.get("property") == pid
        and k.get("status", "open") == "open"
        and k.get("exclude", {}).get("grammar") == gname
    ]


def bump(stats, key):
    stats[key] = stats.get(key, 0) + 1
