"""C13 - repetition, optional, separator, group and greedy syntax mean what the docs say."""
import os
import shutil
import tempfile

import parglare
from parglare import GLRParser, Grammar, Parser
from parglare.exceptions import LoopError, RRConflicts, SRConflicts

from vp import pgx
from vp.symx import Pre, Skip

from .common import bump, excluded_inputs, length_of, norm, norm_in

INFO = {
    "level": "other",
    "explanation": "Bounded symbolic execution of the real grammar front end's product (helper rules and built-in actions made "
    "by Grammar._resolve_ref/_make_multiplicity_symbol, act_production_group, act_gsymbol_reference, parglare.actions) "
    "through both parsers on symbolic w (len <= N).  Each sugared skeleton is paired with a hand-written plain-BNF grammar "
    "whose collect/optional actions are written in the harness (not parglare's helpers).  Per path: same acceptance and "
    "same result for LR (when both construct) and the same SET of call_actions results over the GLR forests.  Greedy "
    "pairs: same acceptance as the non-greedy twin, and the greedy GLR forest has exactly one tree whose result equals "
    "that of the non-greedy tree maximising the consumption of the greedy repetitions from left to right.",
    "bounds": {"quick": {"N": 5, "pairs": "21 (incl. a rule written as two blocks with groups in both, and two multi-file pairs: sugar on an imported rule; root and imported file each repeating an own rule of the same name)", "greedy": 7}, "thorough": {"N": 6}},
    "outside": "inputs longer than N; rule shapes other than the listed pairs",
    "assumptions": ["get_context stubbed; realize-atomic marks", "the plain-BNF expansions are hand-derived from docs/grammar_language.md"],
}

MANIFEST = {
    "level_text": "Bounded symbolic execution of both parsers on the grammar the real front end builds from sugar, against "
    "the documented plain-BNF expansion with independent actions; path-exhaustive for len(w) <= N per pair.",
    "level_note": "Trusted: CrossHair proxies, z3; hand-written expansions (the program bound).  The front end itself runs "
    "natively at build time (its input, the grammar text, cannot be symbolic: it goes through regex terminals).",
}

APP = lambda _, n: n[0] + [n[1]]  # noqa
APPS = lambda _, n: n[0] + [n[2]]  # noqa
ONE = lambda _, n: [n[0]]  # noqa
FIRST = lambda _, n: n[0]  # noqa
EMPTYL = lambda _, n: []  # noqa
NONE = lambda _, n: None  # noqa

PAIRS = {
    "plus-term": ("S: 'a'+ 'b';", "S: As 'b'; As: As 'a' | 'a';", {"As": [APP, ONE]}),
    "star-term": ("S: 'a'* 'b';", "S: As0 'b'; As0: As {nops} | EMPTY; As: As 'a' | 'a';", {"As": [APP, ONE], "As0": [FIRST, EMPTYL]}),
    "opt-term": ("S: 'a'? 'b';", "S: Ao 'b'; Ao: 'a' | EMPTY;", {"Ao": [FIRST, NONE]}),
    "plus-sep": ("S: A+[comma]; A: 'a';\nterminals\ncomma: ',';", "S: As; As: As ',' A | A; A: 'a';", {"As": [APPS, ONE]}),
    "star-sep": ("S: A*[comma] 'x'; A: 'a';\nterminals\ncomma: ',';", "S: As0 'x'; As0: As {nops} | EMPTY; As: As ',' A | A; A: 'a';",
                 {"As": [APPS, ONE], "As0": [FIRST, EMPTYL]}),
    "plus-nonterm": ("S: B+; B: 'a' 'b' | 'c';", "S: Bs; Bs: Bs B | B; B: 'a' 'b' | 'c';", {"Bs": [APP, ONE]}),
    "group-plus": ("S: ('a' 'b')+ 'c';", "S: Gs 'c'; Gs: Gs G | G; G: 'a' 'b';", {"Gs": [APP, ONE]}),
    "group-choice-star": ("S: ('a' | 'b' 'c')* 'd';", "S: Gs0 'd'; Gs0: Gs {nops} | EMPTY; Gs: Gs G | G; G: 'a' | 'b' 'c';",
                          {"Gs": [APP, ONE], "Gs0": [FIRST, EMPTYL]}),
    "nested-groups": ("S: ('a' ('b' | 'c')?)+;", "S: Gs; Gs: Gs G | G; G: 'a' Ho; Ho: H | EMPTY; H: 'b' | 'c';",
                      {"Gs": [APP, ONE], "Ho": [FIRST, NONE]}),
    "opt-group": ("S: 'x' ('a' 'b')? 'y';", "S: 'x' Go 'y'; Go: G | EMPTY; G: 'a' 'b';", {"Go": [FIRST, NONE]}),
    "shared-helper": ("S: 'a'+ 'x' 'a'+;", "S: As 'x' As; As: As 'a' | 'a';", {"As": [APP, ONE]}),
    "rule-separator": ("S: A+[Sep]; A: 'a'; Sep: ',' | ';';", "S: As; As: As Sep A | A; A: 'a'; Sep: ',' | ';';", {"As": [APPS, ONE]}),
    "opt-nonterm": ("S: B? 'c'; B: 'a' | 'a' 'b';", "S: Bo 'c'; Bo: B | EMPTY; B: 'a' | 'a' 'b';", {"Bo": [FIRST, NONE]}),
    "star-of-group-sep": ("S: ('a' 'b')*[comma] 'x';\nterminals\ncomma: ',';", "S: Gs0 'x'; Gs0: Gs {nops} | EMPTY; Gs: Gs ',' G | G; G: 'a' 'b';",
                          {"Gs": [APPS, ONE], "Gs0": [FIRST, EMPTYL]}),
    "two-different-reps": ("S: 'a'* 'b'+ 'a'?;", "S: As0 Bs Ao; As0: As {nops} | EMPTY; As: As 'a' | 'a'; Bs: Bs 'b' | 'b'; Ao: 'a' | EMPTY;",
                           {"As": [APP, ONE], "As0": [FIRST, EMPTYL], "Bs": [APP, ONE], "Ao": [FIRST, NONE]}),
    "star-then-same": ("S: A* A B; A: 'a'; B: 'b';", "S: As0 A B; As0: As {nops} | EMPTY; As: As A | A; A: 'a'; B: 'b';", {"As": [APP, ONE], "As0": [FIRST, EMPTYL]}),
    "falsy-plus": ("S: B+ 'x' B+[comma]; B: 'a' | 'z' | 'e';\nterminals\ncomma: ',';",
                   "S: Bs 'x' Cs; Bs: Bs B | B; Cs: Cs ',' B | B; B: 'a' | 'z' | 'e';",
                   {"Bs": [APP, ONE], "Cs": [APPS, ONE], "B": [lambda _, n: 1, lambda _, n: 0, lambda _, n: ""]},
                   {"B": [lambda _, n: 1, lambda _, n: 0, lambda _, n: ""]}),
    # one rule written as two blocks, groups in both (group rules are numbered per rule name)
    "multi-block-groups": ("S: 'x' ('a' ('b')*)+ 'y'; S: 'z' ('e')+ 'w';",
                           "S: 'x' Gs 'y' | 'z' Es 'w'; Gs: Gs G | G; G: 'a' Hs0; Hs0: Hs {nops} | EMPTY; Hs: Hs H | H; H: 'b'; Es: Es E | E; E: 'e';",
                           {"Gs": [APP, ONE], "Hs": [APP, ONE], "Hs0": [FIRST, EMPTYL], "Es": [APP, ONE]}),
    "ambiguous-reps": ("S: 'a'* 'a'*;", "S: As0 As0; As0: As {nops} | EMPTY; As: As 'a' | 'a';", {"As": [APP, ONE], "As0": [FIRST, EMPTYL]}),
}

IMPORT_PAIR = ("import 'sub.pg' as s;\nS: s.Item+ 'x';\n", "Item: 'a'? 'b';\n",
               "S: Is 'x'; Is: Is I | I; I: Ao 'b'; Ao: 'a' | EMPTY;", {"Is": [APP, ONE], "Ao": [FIRST, NONE]})

# the root and the imported file each have their own rule `Item` and both repeat it
IMPORT_PAIR2 = ("import 'sub.pg' as s;\nS: Item+ 'x' s.T;\nItem: 'a';\n", "T: Item+;\nItem: 'b';\n",
                "S: As 'x' T; As: As A | A; A: 'a'; T: Bs; Bs: Bs B | B; B: 'b';", {"As": [APP, ONE], "Bs": [APP, ONE]})

# greedy text, non-greedy twin, indices (in S's RHS) of the greedy repetitions
GREEDY = {
    "star!-star": ("S: 'a'*! 'a'*;", "S: 'a'* 'a'*;", [0]),
    "star-star!": ("S: 'a'* 'a'*!;", "S: 'a'* 'a'*;", [1]),
    "group-star!": ("S: ('a' | 'b' 'c')*! 'a'*;", "S: ('a' | 'b' 'c')* 'a'*;", [0]),
    "plus!-plus": ("S: 'a'+! 'a'+;", "S: 'a'+ 'a'+;", [0]),
    "opt!-opt": ("S: 'a'?! 'a'? 'b';", "S: 'a'? 'a'? 'b';", [0]),
    "star!-b-star!": ("S: 'a'*! 'b'? 'a'*!;", "S: 'a'* 'b'? 'a'*;", [0, 2]),
    "nt-star!": ("S: A*! A* 'x'; A: 'a' | 'b';", "S: A* A* 'x'; A: 'a' | 'b';", [0]),
}


def cases(tier, seed):
    out = []
    N = 5 if tier == "quick" else 6
    for nm in PAIRS:
        n_ = 4 if (tier == "quick" and nm == "falsy-plus") else N  # five terminals: one character less keeps the quick tier short
        out.append({"name": "pair:%s|N=%d" % (nm, n_), "params": {"kind": "pair", "pair": nm, "N": n_}, "budget_s": 3000})
    out.append({"name": "pair:imported|N=%d" % N, "params": {"kind": "pair", "pair": "__import__", "N": N}, "budget_s": 3000})
    out.append({"name": "pair:imported, same rule name in both files|N=%d" % N, "params": {"kind": "pair", "pair": "__import2__", "N": N}, "budget_s": 3000})
    for nm in GREEDY:
        out.append({"name": "greedy:%s|N=%d" % (nm, N), "params": {"kind": "greedy", "pair": nm, "N": N}, "budget_s": 3000})
    out.append({"name": "twin:pair:star-sep", "params": {"kind": "pair", "pair": "star-sep", "N": 4, "twin": True}, "expect_refuted": True, "budget_s": 300})
    return out


_dirs = []


def _grammar_from(text, imp=None):
    if imp is None:
        return Grammar.from_string(text)
    d = tempfile.mkdtemp(prefix="vp-c13-")
    _dirs.append(d)
    with open(os.path.join(d, "root.pg"), "w") as f:
        f.write(text)
    with open(os.path.join(d, "sub.pg"), "w") as f:
        f.write(imp)
    return Grammar.from_file(os.path.join(d, "root.pg"))


import atexit  # noqa

atexit.register(lambda: [shutil.rmtree(d, ignore_errors=True) for d in _dirs])


def _try(cls, g, **kw):
    try:
        return cls(g, **kw)
    except (SRConflicts, RRConflicts):
        return None


def results(glr, forest, K=64):
    try:
        n = len(forest)
    except LoopError:
        return None
    if n > K:
        return None
    out = []
    for i in range(n):
        r = glr.call_actions(forest[i])
        if r not in out:
            out.append(r)
    return out


def same_set(a, b):
    return all(x in b for x in a) and all(x in a for x in b)


def build(params, symbolic):
    if params["kind"] == "greedy":
        return build_greedy(params, symbolic)
    N = params["N"]
    twin = params.get("twin")
    if params["pair"] in ("__import__", "__import2__"):
        root, sub, plain, acts = IMPORT_PAIR if params["pair"] == "__import__" else IMPORT_PAIR2
        sugar_acts = None
        mk_sugar = lambda: _grammar_from(root, sub)  # noqa
    else:
        pr = PAIRS[params["pair"]]
        sugar, plain, acts = pr[0], pr[1], pr[2]
        sugar_acts = pr[3] if len(pr) > 3 else None
        mk_sugar = lambda: Grammar.from_string(sugar)  # noqa
    if twin:
        acts = dict(acts)
        acts["As"] = [APP, ONE]  # keeps the separator: deliberately wrong expansion
    skw = {"actions": sugar_acts} if sugar_acts else {}
    lr_s = _try(Parser, mk_sugar(), **skw)
    lr_p = _try(Parser, Grammar.from_string(plain), actions=acts)
    glr_s = GLRParser(mk_sugar(), **skw)
    glr_p = GLRParser(Grammar.from_string(plain), actions=acts)
    # GLR with the prefer-shifts strategies on: the documented {nops} of x* keeps both SHIFT and REDUCE
    glr_s2 = GLRParser(mk_sugar(), prefer_shifts=True, prefer_shifts_over_empty=True, **skw)
    glr_p2 = GLRParser(Grammar.from_string(plain), actions=acts, prefer_shifts=True, prefer_shifts_over_empty=True)
    stats = {"lr": int(bool(lr_s and lr_p))}
    if bool(lr_s) != bool(lr_p):
        problem = "LR Parser() constructs for the %s grammar only" % ("sugared" if lr_s else "expanded")

        def hfail(w: str):
            return problem

        hfail.stats = {}
        hfail.expect = []
        hfail.stubs = []
        return hfail

    def h(w: str):
        n = length_of(w, N)
        try:
            fs = glr_s.parse(w)
            acc_s = True
        except parglare.SyntaxError:
            acc_s = False
        try:
            fp = glr_p.parse(w)
            acc_p = True
        except parglare.SyntaxError:
            acc_p = False
        if acc_s != acc_p:
            return "sugared grammar %s, BNF expansion %s" % ("accepts" if acc_s else "rejects", "accepts" if acc_p else "rejects")
        if not acc_s:
            bump(stats, "rejected")
            return True
        bump(stats, "accepted")
        rs, rp = results(glr_s, fs), results(glr_p, fp)
        if rs is not None and rp is not None and not same_set(rs, rp):
            return "GLR results differ: sugar %r, expansion %r" % (rs, rp)
        try:
            fs2 = glr_s2.parse(w)
            r2s = results(glr_s2, fs2)
        except parglare.SyntaxError:
            r2s = "<SyntaxError>"
        try:
            fp2 = glr_p2.parse(w)
            r2p = results(glr_p2, fp2)
        except parglare.SyntaxError:
            r2p = "<SyntaxError>"
        if isinstance(r2s, str) != isinstance(r2p, str) or (isinstance(r2s, list) and isinstance(r2p, list) and not same_set(r2s, r2p)):
            return "GLR(prefer_shifts) results differ: sugar %r, expansion %r" % (r2s, r2p)
        if lr_s and lr_p:
            try:
                a = lr_s.parse(w)
            except parglare.SyntaxError:
                a = "<SyntaxError>"
            try:
                b = lr_p.parse(w)
            except parglare.SyntaxError:
                b = "<SyntaxError>"
            if a != b:
                return "LR results differ: sugar %r, expansion %r" % (a, b)
        return True

    h.stats = stats
    h.expect = [] if twin else ["accepted", "rejected"]
    h.stubs = ["realize_atomic", "get_context"]
    return h


def build_greedy(params, symbolic):
    N = params["N"]
    gtext, ntext, gidx = GREEDY[params["pair"]]
    glr_g = GLRParser(Grammar.from_string(gtext))
    glr_n = GLRParser(Grammar.from_string(ntext))
    stats = {}
    skip = [] if params.get("no_skip") else excluded_inputs("C13", "greedy:" + params["pair"])

    def nleaves(t):
        return len(pgx.leaves(t))

    def h(w: str):
        n = length_of(w, N)
        try:
            fg = glr_g.parse(w)
            acc_g = True
        except parglare.SyntaxError:
            acc_g = False
        try:
            fn = glr_n.parse(w)
            acc_n = True
        except parglare.SyntaxError:
            acc_n = False
        if skip and norm_in(norm(w, n, "\n\r\t "), skip):
            raise Pre()
        if acc_g != acc_n:
            return "greedy form %s, non-greedy form %s" % ("accepts" if acc_g else "rejects", "accepts" if acc_n else "rejects")
        if not acc_g:
            bump(stats, "rejected")
            return True
        cnt = len(fn)
        best, bestkey = None, None
        for i in range(cnt):
            t = pgx.conv(fn[i])
            key = tuple(nleaves(t[3][j]) for j in gidx)
            if bestkey is None or key > bestkey:
                best, bestkey = i, key
        want = glr_n.call_actions(fn[best])
        if len(fg) != 1:
            return "greedy forest has %d trees (non-greedy %d)" % (len(fg), cnt)
        got = glr_g.call_actions(fg[0])
        if got != want:
            return "greedy result %r, maximal-consumption tree gives %r" % (got, want)
        bump(stats, "ambiguous" if cnt > 1 else "unambiguous")
        return True

    h.stats = stats
    h.expect = ["rejected"] if skip else ["ambiguous", "rejected"]
    h.stubs = ["realize_atomic", "get_context"]
    return h
