"""C17 - with consume_input off, results parse sentence prefixes; GLR finds them all."""
import parglare
from parglare import GLRParser, Grammar, Parser
from parglare.exceptions import DisambiguationError, LoopError, RRConflicts, SRConflicts

from vp import corpus, pgx, refcfg
from vp.symx import Pre, Skip, build_guard

from .common import TABLES, bump, excluded_inputs, length_of, norm, norm_in, norm_prefix_in, selfcheck_oracle, spec_from_params

INFO = {
    "level": "other",
    "explanation": "Bounded symbolic execution of the real parsers constructed with consume_input=False on symbolic w "
    "(len <= N), acyclic grammars.  LR: whatever Parser.parse(build_tree=True) returns is a whole valid derivation "
    "(root = start symbol, productions, leaves == the tokens of a prefix) and that prefix is a sentence according to the "
    "reference (Earley: the start symbol spans from the start to the position after the last leaf + layout).  GLR "
    "with lexical_disambiguation off: the list of forest trees, as a multiset, equals the multiset of all reference "
    "derivations of all sentence prefixes ending at a token boundary; SyntaxError iff no prefix is a sentence.  With "
    "lexical_disambiguation on only soundness is asserted (every tree is a derivation of a sentence prefix): the STOP "
    "token takes part in longest-match there and loses against any real token - listed as a known finding by call site.",
    "bounds": {"quick": {"N": 4, "K": 100}, "thorough": {"N": 5}},
    "outside": "inputs longer than N; cyclic grammars; grammars outside the families",
    "assumptions": ["get_context stubbed; realize-atomic marks", "inputs listed in known_findings.json (GLR incompleteness / duplicate packing, "
                    "same root cause as C02/C03) are assumed away and replayed natively"],
}

MANIFEST = {
    "level_text": "Bounded symbolic execution of both parsers with consume_input=False; path-exhaustive over inputs of length "
    "<= N; prefixes and their derivations come from an independent Earley/chart reference.",
    "level_note": "Trusted: CrossHair proxies, z3, the reference recogniser/enumerator.",
}

SHAPES_Q = ["leftrec", "rightrec", "midrec", "ambig-binop", "ambig-concat", "nullable-chain", "nullable-start", "nullable-end",
            "two-nullables", "lr2", "dangling-else", "expr", "paren", "list-sep", "opt-list", "palindrome", "bounded-amb",
            "lex-a-aa", "lex-prefix", "hidden-right", "lex-alt"]


PRIO = {
    "prio-tail": ("S: S a | S C | b;", {"C": ["s", "c"]}, {"C": " {5}"}),
    "prio-two": ("S: a T | a; T: b | C | T C;", {"C": ["s", "c"]}, {"C": " {5}"}),
}


def prio_spec(nm):
    from vp.gspec import parse_short

    text, terms, meta = PRIO[nm]
    g = parse_short(text, terms={k: tuple(v) for k, v in terms.items()}, name=nm)
    g.meta["term_meta"] = meta
    return g


def acyclic(gs):
    return [g for g in gs if not g.is_cyclic()]


def universe():
    return [(g, 5) for g in acyclic(corpus.shapes())] + [(g, 5) for g in acyclic(corpus.gf_tiny(3))]


def sweep_params(gshort, gname, nmax):
    return [{"grammar": gshort, "gname": gname, "mode": "glr", "ld": False, "N": nmax, "K": 300, "no_skip": True}]


def cases(tier, seed):
    out = []
    N = 4 if tier == "quick" else 5
    gs = [corpus.shape(n) for n in SHAPES_Q]
    if tier == "quick":
        gs += corpus.stratified(acyclic(corpus.gf_tiny(3)), 10, seed)
    else:
        gs = acyclic(corpus.shapes()) + corpus.stratified(acyclic(corpus.gf_tiny(3)), 150, seed)
    for g in gs:
        out.append(_case(g, "lr", True, N))
        out.append(_case(g, "glr", False, N))
        out.append(_case(g, "glr", True, N))
    for nm in ("leftrec", "lex-alt", "nullable-end", "expr"):
        for mode, ld in (("lr", True), ("glr", False)):
            for opt in ("custom-tokens", "pretable"):
                c = _case(corpus.shape(nm), mode, ld, N)
                c["name"] += "|" + opt
                c["params"]["opt"] = opt
                out.append(c)
    for nm in PRIO:
        g = prio_spec(nm)
        for mode, ld in (("lr", True), ("glr", False)):
            c = _case(g, mode, ld, N)
            c["params"]["prio"] = nm
            out.append(c)
    tw = _case(corpus.shape("leftrec"), "glr", False, 3)
    tw["name"] = "twin:" + tw["name"]
    tw["params"]["twin"] = True
    tw["expect_refuted"] = True
    out.append(tw)
    return out


def _case(g, mode, ld, N):
    return {"name": "%s|%s|ld=%d|N=%d" % (g.name, mode, ld, N),
            "params": {"grammar": g.short(), "gname": g.name, "mode": mode, "ld": ld, "N": N, "K": 100}, "budget_s": 1500}


def build(params, symbolic):
    spec = prio_spec(params["prio"]) if params.get("prio") else spec_from_params(params)
    if spec.is_cyclic():
        raise Skip("cyclic grammar")
    N, K, mode, ld = params["N"], params["K"], params["mode"], params["ld"]
    twin = params.get("twin")
    texts = [v for _, v in spec.terms.values()]
    no_overlap = all(len(t) == 1 for t in texts) and len(set(texts)) == len(texts)
    # (terminal priorities only order the scan among terminals that match at one position; with non-overlapping
    #  terminals they must not change which prefixes are found)
    opt = params.get("opt")
    okw = {}
    if opt == "custom-tokens":
        okw["custom_token_recognition"] = lambda context, get_tokens: get_tokens()  # pass-through
    try:
        with build_guard(20):
            if opt == "pretable":
                # precomputed table handed to the constructor; scanning options left at their defaults
                g0 = Grammar.from_string(spec.text())
                okw["table"] = (Parser(g0) if mode == "lr" else GLRParser(g0)).table
                if mode == "lr":
                    parser = Parser(g0, consume_input=False, build_tree=True, **okw)
                else:
                    parser = GLRParser(g0, consume_input=False, **okw)
            elif mode == "lr":
                parser = Parser(Grammar.from_string(spec.text()), consume_input=False, build_tree=True, **okw)
            else:
                parser = GLRParser(Grammar.from_string(spec.text()), consume_input=False, lexical_disambiguation=ld, **okw)
    except (SRConflicts, RRConflicts) as e:
        raise Skip("Parser() does not construct: %s" % type(e).__name__)
    if symbolic:
        selfcheck_oracle(spec, 3)
    skip = [] if params.get("no_skip") else excluded_inputs("C17", spec.short())
    stats = {}

    def h(w: str):
        n = length_of(w, N)
        res = None
        try:
            res = parser.parse(w)
        except parglare.SyntaxError:
            pass
        except DisambiguationError:
            if no_overlap:
                return "DisambiguationError without lexical overlap"
            return True
        lex, ey = refcfg.analyse(spec, w, n)
        stops = sorted(ey.accepted_at)
        if twin and stops:
            stops = stops[:-1]
        # every extension of a listed input fails too (all sentence prefixes are reported), so listed inputs exclude by prefix
        if skip and norm_prefix_in(norm(w, n, spec.ws), skip):
            raise Pre()
        if mode == "lr":
            if res is None:
                bump(stats, "rejected")
                return True  # LR may miss prefixes (conflict resolution); only soundness is claimed
            t = pgx.conv(res)
            why = pgx.check_tree(spec, t, w, n, lex)
            if why:
                return "LR result is not a derivation: " + why
            lv = pgx.leaves(t)
            end = lex.skip(lv[-1][3]) if lv else ey.p0
            if end not in stops:
                return "LR result covers a prefix ending at %d which is not a sentence (sentence prefixes end at %r)" % (end, stops)
            bump(stats, "accepted")
            return True
        strict = (not ld) or params.get("strict_ld")
        if res is None:
            if stops and strict:
                return "GLR raised SyntaxError although prefixes ending at %r are sentences" % (stops,)
            bump(stats, "rejected")
            return True
        if not stops:
            return "GLR returned a forest although no prefix is a sentence"
        try:
            cnt = len(res)
        except LoopError:
            return "LoopError on an acyclic grammar"
        if cnt > K:
            bump(stats, "too_many")
            return True
        got = [pgx.conv(res[i]) for i in range(cnt)]
        exact = strict and (no_overlap or not ld)
        want = []
        for k in stops:
            kind, trees, _ = refcfg.derivations(spec, lex, ey, end=k, limit=K)
            if kind != "fin":
                bump(stats, "too_many")
                return True
            want.extend(trees)
        for t in got:
            if t not in want:
                return "forest tree is not a derivation of a sentence prefix: %r" % (pgx.strip_pos(t),)
        if exact:
            for t in want:
                if got.count(t) != 1:
                    return "derivation of a sentence prefix occurs %d times in the forest: %r" % (got.count(t), pgx.strip_pos(t))
            if len(got) != len(want):
                return "forest has %d trees, the sentence prefixes have %d derivations" % (len(got), len(want))
        bump(stats, "accepted")
        if len(stops) > 1:
            bump(stats, "several_prefixes")
        return True

    h.stats = stats
    h.expect = [] if twin else ["accepted"]
    h.stubs = ["realize_atomic", "get_context"]
    return h
