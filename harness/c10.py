"""C10 - rejections are always reported as SyntaxError at the first offending token."""
from typing import List

import parglare
from parglare import GLRParser, Grammar, Parser
from parglare.common import pos_to_line_col
from parglare.exceptions import DisambiguationError, RRConflicts, SRConflicts, get_line_col_at_position

from vp import corpus, refcfg
from vp.symx import Pre, Skip, build_guard

from .common import TABLES, bump, length_of, norm, norm_in, selfcheck_oracle, spec_from_params

INFO = {
    "level": "other",
    "explanation": "Bounded symbolic execution of the real parsers INCLUDING error construction and rendering "
    "(_create_error, SyntaxError.__init__, ParglareError.__str__, Location, pos_to_line_col, get_context, "
    "get_line_col_at_position, get_indented_message, GLR _enter/_finish_error_reporting) on symbolic w (len <= N, "
    "including '', trailing layout, newlines).  Per path: a non-sentence (reference Earley) raises parglare.SyntaxError "
    "and nothing else from GLRParser and from a deterministic Parser; location.start_position == the farthest position "
    "the reference reaches (end of the longest viable prefix + layout), equal for LR/GLR and LALR/SLR; (line, column) "
    "== an independent computation from that position; 'end of file' in the message iff position == len(w); str(e) and "
    "repr(e.location) do not raise; GLR symbols_expected == the terminals the reference can continue with (STOP aside). "
    "Conflict-resolved LR parsers (default strategies) may fail only with SyntaxError or, on lexically overlapping "
    "terminals, DisambiguationError located where all its tokens match.  Leaf kernels pos_to_line_col / "
    "get_line_col_at_position are run alone (len <= 6 / len <= 3).  A list-input case uses w: List[int] with custom recognisers.",
    "bounds": {"quick": {"N": 3, "kernels": "pos_to_line_col len <= 6, get_line_col_at_position len <= 3 (4 thorough)", "list": "len <= 3, elements 0..3"}, "thorough": {"N": "4 for the 14 shapes, 3 for 50 more stratified GF-tiny(3) grammars"}},
    "outside": "inputs longer than N; custom error hints (.pge files); error_recovery (C11)",
    "assumptions": ["realize-atomic marks only - message rendering runs for real", "reference: refcfg.Earley (farthest non-empty item set, terminals after the dot)"],
}

MANIFEST = {
    "level_text": "Bounded symbolic execution of parsing + error reporting + rendering, path-exhaustive for inputs of "
    "length <= N over all code points (so empty input, trailing layout and newlines are covered by construction), "
    "compared with an Earley reference for position and expected terminals.",
    "level_note": "Trusted: CrossHair proxies, z3, the Earley reference (cross-validated against brute force).  N=3 in the "
    "quick tier because rendering forks on every character.",
}

SHAPES_Q = ["leftrec", "midrec", "nullable-start", "nullable-mid", "nullable-end", "expr", "paren", "list-sep", "lr2",
            "ambig-binop", "hidden-left", "two-nullables", "opt-list", "unit-chain"]
LEX = ["lex-a-aa", "lex-a-ab-b"]


def cases(tier, seed):
    out = []
    N = 3 if tier == "quick" else 4
    gs = [corpus.shape(n) for n in SHAPES_Q]
    for g in gs:
        for tb in ("LALR", "SLR"):
            out.append(_case(g, "glr", tb, N))
            out.append(_case(g, "lr", tb, N))
    if tier != "quick":
        # a measured full N=4 run over 64 more grammars did not fit in 100 min: the extra grammars stay at N=3
        for g in corpus.stratified(corpus.gf_tiny(3), 50, seed):
            for tb in ("LALR", "SLR"):
                out.append(_case(g, "glr", tb, 3))
                out.append(_case(g, "lr", tb, 3))
    for nm in LEX:
        out.append(_case(corpus.shape(nm), "glr", "LALR", N))
        out.append(_case(corpus.shape(nm), "lr", "LALR", N))
    out.append({"name": "kernel:pos_to_line_col len<=6", "params": {"kind": "kernel", "which": "plc", "L": 6}, "budget_s": 1200, "render_errors": True})
    out.append({"name": "kernel:get_line_col_at_position len<=%d" % (3 if tier == "quick" else 4), "params": {"kind": "kernel", "which": "glc", "L": 3 if tier == "quick" else 4}, "budget_s": 3000, "render_errors": True})
    out.append({"name": "list-input", "params": {"kind": "list", "N": 3}, "budget_s": 1200, "render_errors": True})
    out.append({"name": "equal-length-ambiguity", "params": {"kind": "amb", "N": N + 1}, "budget_s": 1500, "render_errors": True})
    tw = _case(corpus.shape("leftrec"), "glr", "LALR", 2)
    tw["name"] = "twin:" + tw["name"]
    tw["params"]["twin"] = True
    tw["expect_refuted"] = True
    out.append(tw)
    return out


def _case(g, mode, tb, N):
    return {
        "name": "%s|%s|%s|N=%d" % (g.name, mode, tb, N),
        "params": {"grammar": g.short(), "gname": g.name, "mode": mode, "tables": tb, "N": N},
        "budget_s": 1500, "render_errors": True,
    }


def ref_line_col(w, n, p):
    line, col = 1, 0
    for i in range(p):
        if w[i] == "\n":
            line += 1
            col = 0
        else:
            col += 1
    return line, col


def build(params, symbolic):
    kind = params.get("kind")
    if kind == "kernel":
        return build_kernel(params, symbolic)
    if kind == "list":
        return build_list(params, symbolic)
    if kind == "amb":
        return build_amb(params, symbolic)
    spec = spec_from_params(params)
    N, mode = params["N"], params["mode"]
    twin = params.get("twin")
    grammar = Grammar.from_string(spec.text())
    texts = [v for _, v in spec.terms.values()]
    no_overlap = all(len(t) == 1 for t in texts) and len(set(texts)) == len(texts)
    deterministic = False
    try:
        with build_guard(20):
            if mode == "glr":
                parser = GLRParser(grammar, tables=TABLES[params["tables"]])
            else:
                parser = Parser(grammar, tables=TABLES[params["tables"]])
                try:
                    strict = Parser(Grammar.from_string(spec.text()), tables=TABLES[params["tables"]], prefer_shifts=False, prefer_shifts_over_empty=False)
                    deterministic = all(len(a) == 1 for s in strict.table.states for a in s.actions.values()) and no_overlap
                except (SRConflicts, RRConflicts):
                    deterministic = False
    except (SRConflicts, RRConflicts) as e:
        raise Skip("Parser() does not construct: %s" % type(e).__name__)
    if symbolic:
        selfcheck_oracle(spec, 3)
    stats = {"deterministic": int(deterministic)}

    def h(w: str):
        n = length_of(w, N)
        err = None
        try:
            parser.parse(w)
        except parglare.SyntaxError as e:
            err = e
        except DisambiguationError as e:
            if mode == "glr" or no_overlap:
                return "DisambiguationError from %s" % mode
            p = e.location.start_position
            if not (isinstance(p, int) and 0 <= p < n):
                return "DisambiguationError located at %r" % (p,)
            for t in e.tokens:
                if w[p : p + len(t.value)] != t.value:
                    return "DisambiguationError at %d but token %r does not match there" % (p, t.value)
            str(e)
            bump(stats, "lexamb")
            return True
        lex, ey = refcfg.analyse(spec, w, n)
        if err is None:
            if mode == "glr" or deterministic:
                if not ey.accepted:
                    return "accepted a non-sentence"
            bump(stats, "accepted")
            return True
        if mode == "glr" or deterministic:
            if ey.accepted:
                return "SyntaxError on a sentence"
        elif ey.accepted:
            bump(stats, "resolved_rejects_sentence")
            # conflict-resolved parser: may reject sentences; only the exception type/location is claimed
        p = err.location.start_position
        if not (isinstance(p, int) and 0 <= p <= n):
            return "error position %r" % (p,)
        if mode == "glr" or deterministic:
            want = ey.farthest
            if twin:
                want = want + 1
            if p != want:
                return "error reported at %d, first offending token starts at %d" % (p, want)
        line, col = err.location.line, err.location.column
        if (line, col) != ref_line_col(w, n, p):
            return "line/column %r for position %d, expected %r" % ((line, col), p, ref_line_col(w, n, p))
        text = str(err)
        repr(err.location)
        eof = "end of file" in err.message
        if eof != (p == n):
            return "message %r but position %d of %d" % (err.message, p, n)
        if not text:
            return "empty rendering"
        if mode == "glr":
            got = {s.name for s in err.symbols_expected} - {"STOP"}
            exp = set(ey.expected_at(ey.farthest))
            if got != exp:
                return "symbols_expected %r, terminals that can come next %r" % (sorted(got), sorted(exp))
        bump(stats, "rejected")
        return True

    h.stats = stats
    h.expect = [] if twin else ["rejected"]
    h.stubs = ["realize_atomic"]
    return h


def build_kernel(params, symbolic):
    stats = {}

    which, L = params["which"], params["L"]

    def h(w: str, p: int):
        n = length_of(w, L)
        if p < 0 or p > n:
            raise Pre()
        for k in range(n + 1):
            if p == k:
                p = k
                break
        if which == "plc":
            if pos_to_line_col(w, p) != ref_line_col(w, n, p):
                return "pos_to_line_col(%r, %d) = %r" % (w, p, pos_to_line_col(w, p))
            bump(stats, "ok")
            return True
        r = get_line_col_at_position(w, p)
        if r[0] is None or r[1] is None:
            return "get_line_col_at_position gives no line for an in-range position"
        if not (isinstance(r[2], str) and 0 <= r[1]):
            return "get_line_col_at_position returned %r" % (r,)
        bump(stats, "ok")
        return True

    h.stats = stats
    h.expect = ["ok"]
    h.stubs = []
    return h


LIST_G = """
S: A B S | A;
terminals
A: ;
B: ;
"""


def build_list(params, symbolic):
    N = params["N"]

    def rec_a(input, pos):
        if input[pos] == 1:
            return input[pos : pos + 1]

    def rec_b(input, pos):
        if input[pos] == 2:
            return input[pos : pos + 1]

    recs = {"A": rec_a, "B": rec_b}
    lr = Parser(Grammar.from_string(LIST_G, recognizers=recs), ws=None)
    glr = GLRParser(Grammar.from_string(LIST_G, recognizers=recs), ws=None)
    stats = {}

    def ref(w, n):
        """(accepted, error position) for S: A B S | A over ints 1=A 2=B."""
        i = 0
        while True:
            if i >= n or w[i] != 1:
                return False, i
            i += 1
            if i == n:
                return True, None
            if w[i] != 2:
                return False, i
            i += 1

    def h(w: List[int]):
        n = len(w)
        if n > N:
            raise Pre()
        for k in range(N + 1):
            if n == k:
                n = k
                break
        for i in range(n):
            if w[i] < 0 or w[i] > 3:
                raise Pre()
        acc, pos = ref(w, n)
        for name, parser in (("Parser", lr), ("GLRParser", glr)):
            try:
                parser.parse(w)
                if not acc:
                    return "%s accepted a non-sentence" % name
            except parglare.SyntaxError as e:
                if acc:
                    return "%s rejected a sentence" % name
                if e.location.start_position != pos:
                    return "%s reports position %r, expected %d" % (name, e.location.start_position, pos)
                if (e.location.line, e.location.column) != (1, pos):
                    return "%s line/column %r" % (name, (e.location.line, e.location.column))
                if ("end of file" in e.message) != (pos == n):
                    return "%s message %r at %d of %d" % (name, e.message, pos, n)
                str(e)
        bump(stats, "acc" if acc else "rej")
        return True

    h.stats = stats
    h.expect = ["acc", "rej"]
    h.stubs = ["realize_atomic"]
    return h


AMB_G = """
S: 'k' T | T 'k';
T: A | B;
terminals
A: ;
B: ;
"""


def build_amb(params, symbolic):
    """Two terminals (custom recognisers) that match the same text 'aa' with the same length: the LR parser must raise
    DisambiguationError located at that token - after layout, on whatever line it is."""
    N = params["N"]

    def rec_a(input, pos):
        if input[pos : pos + 2] == "aa":
            return input[pos : pos + 2]

    def rec_b(input, pos):
        if input[pos : pos + 2] == "aa":
            return input[pos : pos + 2]

    lr = Parser(Grammar.from_string(AMB_G, recognizers={"A": rec_a, "B": rec_b}))
    stats = {}

    def h(w: str):
        n = length_of(w, N)
        try:
            lr.parse(w)
            return "ambiguous input accepted" if "aa" in w else True
        except DisambiguationError as e:
            p = e.location.start_position
            # reference: first position, after layout and an optional leading 'k', where 'aa' stands
            i = 0
            while i < n and w[i] in "\n\r\t ":
                i += 1
            if i < n and w[i] == "k":
                i += 1
                while i < n and w[i] in "\n\r\t ":
                    i += 1
            if p != i:
                return "DisambiguationError located at %r, the ambiguous token starts at %d" % (p, i)
            if (e.location.line, e.location.column) != ref_line_col(w, n, p):
                return "DisambiguationError line/column %r for position %d" % ((e.location.line, e.location.column), p)
            str(e)
            bump(stats, "ambiguous")
            return True
        except parglare.SyntaxError:
            bump(stats, "syntax")
            return True

    h.stats = stats
    h.expect = ["ambiguous", "syntax"]
    h.stubs = ["realize_atomic"]
    return h
