"""C15 - parsers are reusable and grammars are not corrupted by building parsers."""
import itertools
import json

import parglare
from parglare import GLRParser, Grammar, Parser
from parglare.exceptions import LoopError, RRConflicts, SRConflicts
from parglare.tables import SLR
from parglare.tables.persist import table_to_serializable

from vp import pgx
from vp.symx import Pre, Skip, native

from .common import bump, length_of

INFO = {
    "level": "other",
    "explanation": "A usage history is a vector of L operations on ONE Grammar object G and ONE parser P built from it; the "
    "operation codes are the concrete case split, the INPUTS of the operations are symbolic strings (len <= 2, all code "
    "points).  Operations: parse w_i with P (sentence or not - decided by the path); parse w_i with a recovering parser "
    "on G; parse w_i with P where a user action raises for inputs starting with 'b'; build GLRParser(G); build "
    "Parser(G, tables=SLR); build another Parser(G) (G may contain a LAYOUT rule, so the layout sub-parser is rebuilt); "
    "a build that fails (strategies off on a conflicting grammar); build GLRParser(G, prefer_shifts=True, "
    "prefer_shifts_over_empty=True) (same table options as the LR parser, other lexical_disambiguation).  A GLRParser "
    "instance built before the history goes through the same parse operations.  One grammar has a string terminal "
    "overlapping a custom 'word' recogniser and a recogniser that raises when error reporting probes it (a user exception; "
    "in a twin grammar a TypeError of its own - the exception type parglare uses to probe the recogniser's calling convention).  After the history every string of length <= 3 over "
    "the grammar's alphabet plus a layout and a foreign character is parsed with P, and with a Parser and a GLRParser "
    "constructed on G after the history; every outcome (result / forest size + first trees / exception type + position) "
    "and the serialised tables must equal those of parsers freshly built from freshly parsed grammar text; "
    "G.productions[0].rhs and G._first_sets are unchanged after every operation.",
    "bounds": {"quick": {"L": 2, "grammars": 2, "vectors": "all 64 of length 2 on one grammar, 12 on two others, 4 on the TypeError twin", "len(w_i)": "<= 2", "probe": "<= 3"},
               "thorough": {"L": "2 (all 64 vectors, 3 grammars) and 3 (16 seeded vectors)"}},
    "outside": "histories longer than L; threads; interruption inside create_table (the un-finally'd swap of the augmented "
    "production can only be left dirty by an exception between two lines, which none of the modelled operations raises)",
    "assumptions": ["get_context stubbed; realize-atomic marks", "the probe loop runs natively inside the path (no symbolic value takes part in it)"],
}

MANIFEST = {
    "level_text": "Bounded symbolic execution of histories: operation inputs are symbolic, operation codes enumerated; the "
    "observable state after every history is compared with a fresh parser on a complete concrete probe set.",
    "level_note": "Trusted: CrossHair proxies, z3.  The oracle is parglare itself on a fresh grammar/parser, so only "
    "history-dependence can be flagged.",
}


class Boom(Exception):
    pass


G_EXPR = "E: E '+' E | 'a' | 'b';"
G_LAYOUT = "S: S 'a' | 'b' | S 'c' S;\nLAYOUT: LI | LAYOUT LI | EMPTY;\nLI: '_';"
# string terminal 'ab' vs. a custom "word" recogniser (stands for a regex: longest run of a/b/c); terminal Z is expected only
# after 'x' and its recogniser raises on the character 'z' - so at an error position it is reached only through error reporting
G_OVER = "S: Item S | Item | 'x' Z;\nItem: 'ab' | W;\nterminals\nW: ;\nZ: ;"
# "overlap-te": the same, but the recogniser fails with a TypeError of its own (the exception type parglare itself uses to
# probe the calling convention of recognisers)
GRAMMARS = {"expr": (G_EXPR, "ab+ z"), "layout": (G_LAYOUT, "abc_z"), "overlap": (G_OVER, "abcxz"), "overlap-te": (G_OVER, "abcxz")}
OPS = ["parse", "recover", "raise", "build_glr", "build_slr", "build_lr", "build_fail", "build_glr_ps"]


def make_recognizers(gname):
    if not gname.startswith("overlap"):
        return None
    exc = TypeError if gname.endswith("-te") else Boom

    def word(input, pos):
        e = pos
        while e < len(input) and input[e] in "abc":
            e += 1
        return input[pos:e] if e > pos else None

    def zed(input, pos):
        if input[pos : pos + 1] == "z":
            raise exc()
        return None

    return {"W": word, "Z": zed}


def mk_grammar(gname):
    return Grammar.from_string(GRAMMARS[gname][0], recognizers=make_recognizers(gname))


def make_actions(gname):
    def raising(context, nodes):
        if context.start_position == 0:
            raise Boom()
        return "b"

    if gname.startswith("overlap"):
        return {}
    if gname == "expr":
        return {"E": [lambda _, n: [n[0], "+", n[2]], lambda _, n: "a", raising]}
    return {"S": [lambda _, n: [n[0], "a"], raising, lambda _, n: [n[0], "c", n[2]]]}


def cases(tier, seed):
    out = []
    vecs2 = list(itertools.product(range(len(OPS)), repeat=2))
    over = [(0, 0), (0, 7), (7, 0), (7, 5), (3, 7), (1, 0), (0, 3), (4, 0), (7, 7), (5, 7), (0, 1), (2, 0)]
    if tier == "quick":
        sel = {"expr": vecs2, "overlap": over, "overlap-te": [(0, 0), (0, 7), (7, 0), (1, 0)], "layout": [(0, 5), (5, 0), (3, 0), (6, 0), (1, 0), (2, 0), (4, 5), (6, 5), (2, 2), (1, 3), (0, 6), (5, 5)]}
    else:
        sel = {"expr": vecs2, "layout": vecs2, "overlap": vecs2, "overlap-te": over}
    for gn, vs in sel.items():
        for v in vs:
            out.append({"name": "%s|%s" % (gn, ",".join(OPS[o] for o in v)), "params": {"g": gn, "ops": list(v)}, "budget_s": 3000})
    if tier != "quick":
        import random

        rnd = random.Random(seed)
        for _ in range(16):
            v = [rnd.randrange(len(OPS)) for _ in range(3)]
            gn = rnd.choice(list(GRAMMARS))
            out.append({"name": "%s|%s" % (gn, ",".join(OPS[o] for o in v)), "params": {"g": gn, "ops": v}, "budget_s": 6000})
    out.append({"name": "twin:expr|parse,parse", "params": {"g": "expr", "ops": [0, 0], "twin": True}, "expect_refuted": True, "budget_s": 600})
    return out


def outcome(p, w):
    try:
        r = p.parse(w)
    except parglare.SyntaxError as e:
        return ("SyntaxError", e.location.start_position)
    except Boom:
        return ("Boom",)
    except Exception as e:  # noqa
        return ("exception", type(e).__name__)
    if isinstance(p, GLRParser):
        try:
            n = len(r)
            return ("forest", n, [r[i].to_str() for i in range(min(n, 6))])
        except LoopError:
            return ("forest", "loop")
    return ("ok", repr(r), len(getattr(p, "errors", []) or []))


def fp(p):
    return json.dumps(table_to_serializable(p.table), sort_keys=True)


def build(params, symbolic):
    text, alphabet = GRAMMARS[params["g"]]
    ops = params["ops"]
    twin = params.get("twin")
    probes = [""]
    for L in (1, 2, 3):
        probes += ["".join(cs) for cs in itertools.product(alphabet, repeat=L)]
    # fresh reference (freshly parsed grammar text, fresh parsers, each outcome computed on a parser that parsed nothing else)
    fg = mk_grammar(params["g"])
    fresh_lr = Parser(fg, actions=make_actions(params["g"]))
    fresh_glr = GLRParser(mk_grammar(params["g"]), actions=make_actions(params["g"]))
    can_fail = not params["g"].startswith("overlap")
    fresh_glr_ps = GLRParser(mk_grammar(params["g"]), actions=make_actions(params["g"]), prefer_shifts=True, prefer_shifts_over_empty=True)
    fresh = {w: (outcome(fresh_lr, w), outcome(fresh_glr, w), outcome(fresh_glr_ps, w)) for w in probes}
    fresh_fp = (fp(fresh_lr), fp(fresh_glr), fp(fresh_glr_ps))
    stats = {}
    L = len(ops)

    USER_EXC = (parglare.SyntaxError, Boom) + ((TypeError,) if params["g"].endswith("-te") else ())

    def body(ws):
        ns = [length_of(w, 2) for w in ws]
        acts = make_actions(params["g"])
        with native():
            G = mk_grammar(params["g"])
            P = Parser(G, actions=acts)
            PG = GLRParser(G, actions=acts)
            rhs0 = list(list.__iter__(G.productions[0].rhs))
            first0 = {k: set(v) for k, v in G._first_sets.items()} if hasattr(G, "_first_sets") else None
            R = None
        for op, w in zip(ops, ws):
            name = OPS[op]
            if name in ("parse", "raise"):
                try:
                    P.parse(w)
                except USER_EXC:
                    pass
                try:
                    PG.parse(w)
                except USER_EXC:
                    pass
            elif name == "recover":
                with native():
                    R = Parser(G, actions=acts, error_recovery=True)
                try:
                    R.parse(w)
                except USER_EXC:
                    pass
            else:
                with native():
                    try:
                        if name == "build_glr":
                            GLRParser(G, actions=acts)
                        elif name == "build_slr":
                            Parser(G, actions=acts, tables=SLR)
                        elif name == "build_lr":
                            Parser(G, actions=acts)
                        elif name == "build_glr_ps":
                            GLRParser(G, actions=acts, prefer_shifts=True, prefer_shifts_over_empty=True)
                        elif not can_fail:
                            pass
                        else:
                            try:
                                Parser(G, actions=acts, prefer_shifts=False, prefer_shifts_over_empty=False)
                                return "harness: the failing build did not fail"
                            except (SRConflicts, RRConflicts):
                                pass
                    except (SRConflicts, RRConflicts):
                        pass
            with native():
                if list(list.__iter__(G.productions[0].rhs)) != rhs0:
                    return "augmented production of the Grammar changed after operation %s" % name
                if first0 is not None and {k: set(v) for k, v in G._first_sets.items()} != first0:
                    return "cached FIRST sets of the Grammar changed after operation %s" % name
        with native():
            P2 = Parser(G, actions=acts)
            P3 = GLRParser(G, actions=acts)
            P4 = GLRParser(G, actions=acts, prefer_shifts=True, prefer_shifts_over_empty=True)  # LR's table options, GLR's scanning
            if (fp(P2), fp(P3), fp(P4)) != fresh_fp:
                return "tables built on the used Grammar differ from tables of a fresh Grammar"
            for w in probes:
                want = fresh[w]
                if twin and w == "a":
                    want = (("ok", "'b'", 0), want[1], want[2])
                got = outcome(P, w)
                if got != want[0]:
                    return "after the history P.parse(%r) gives %r, a fresh parser %r" % (w, got, want[0])
                if outcome(P2, w) != want[0]:
                    return "Parser built after the history: parse(%r) gives %r, fresh %r" % (w, outcome(P2, w), want[0])
                if outcome(P3, w) != want[1]:
                    return "GLRParser built after the history: parse(%r) differs from a fresh one" % w
                if outcome(P4, w) != want[2]:
                    return "GLRParser(prefer_shifts=True, ...) built after the history: parse(%r) gives %r, fresh %r" % (w, outcome(P4, w), want[2])
                if outcome(PG, w) != want[1]:
                    return "after the history the GLR instance gives %r for %r, a fresh GLRParser %r" % (outcome(PG, w), w, want[1])
        bump(stats, "histories")
        return True

    if L == 2:
        def h(w1: str, w2: str):
            return body([w1, w2])
    else:
        def h(w1: str, w2: str, w3: str):
            return body([w1, w2, w3])
    h.stats = stats
    h.expect = [] if twin else ["histories"]
    h.stubs = ["realize_atomic", "get_context"]
    return h
