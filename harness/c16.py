"""C16 - tables and forests are deterministic across processes and hash seeds."""
import hashlib
import json
import os
import subprocess
import sys

import parglare
import parglare.grammar as G
from parglare import GLRParser, Grammar, Parser
from parglare.closure import LR_0, LR_1
from parglare.exceptions import LoopError
from parglare.tables import create_table
from parglare.tables.persist import table_to_serializable

from vp.symx import Pre, native, realize

from .common import bump

INFO = {
    "level": "other",
    "explanation": "The hash seed acts through GrammarSymbol._hash = hash(fqn) and CPython's set/dict layout.  The name `hash` in "
    "parglare.grammar's namespace is shimmed with name -> rank[name], the ranks being SYMBOLIC integers constrained to a "
    "permutation of 0..k-1 over the grammar's symbol names; the solver enumerates the assignments (the values are "
    "concretised at the hash() boundary, so there is one path per permutation - exhaustive over all relative hash orders "
    "of k symbols, no class merging).  Per leaf the real Grammar.from_string + create_table (LALR and SLR) + GLRParser run "
    "and sha256(json.dumps(table_to_serializable)), the conflict report strings and the ordered list of forest[i].to_str() "
    "on ambiguous inputs must equal those of the first leaf.  In addition the same fingerprint is computed in fresh "
    "interpreters under PYTHONHASHSEED 0..15 (a plain native differential, reported as such).",
    "bounds": {"quick": {"symbols": "5 ranked symbols per grammar (120 orders), 7 grammars incl. one with production priorities, one split over imported files and one with several nullable non-terminals (GLR heads revisited within a frontier)"}, "thorough": {"symbols": "5 ranked symbols per grammar (120 orders), 11 grammars"}},
    "outside": "orders that only arise from hash collisions inside one set's table; SipHash itself is not modelled - the "
    "quantifier 'string hash is an arbitrary injective function' is; more than 6 symbols",
    "assumptions": ["module-level `hash` shim in parglare.grammar", "STOP/EMPTY/S' keep the worker process's real hash (workers run under different PYTHONHASHSEEDs)"],
}

MANIFEST = {
    "technique": 'solver-enumerated symbolic hash ranks (CrossHair engine + z3) driving the real construction code through every relative hash order; plus a native run under 16 PYTHONHASHSEEDs',
    "level_text": "Solver-enumerated symbolic hash ranks drive the real construction code through every relative hash order of "
    "the grammar's symbols; byte-identity of the serialised tables, conflict reports and forest order is asserted on every "
    "leaf.  Complemented by a native run under 16 real hash seeds.",
    "level_note": "Trusted: the shim is an honest model of 'hash is an arbitrary injective function on symbol names'; CPython's "
    "set implementation runs for real.  The solver enumerates here (no class merging) - said so in the evidence.",
}

GRAMMARS = {
    "nullable-AB": ("S: A B | A; A: 'a' | EMPTY; B: 'b' | A 'b';", ["ab", "aab", "b", "a"]),
    "ambig-expr": ("E: E '+' E | E '*' E | 'n';", ["n+n*n+n", "n*n*n", "n+n"]),
    "dangling": ("S: 'a' S 'b' | 'a' S | EMPTY;", ["aab", "aaabb", "a"]),
    "prop-c03": ("S: A S | 'b'; A: S | 'a';", ["abb", "bbb", "ab"]),
    "rr": ("S: A 'a' | B 'a'; A: 'b'; B: 'b';", ["ba"]),
    "lex": ("S: S T | T; T: 'a' | 'aa';", ["aaaa", "aaa"]),
    "six": ("S: A B C; A: 'a' | EMPTY; B: 'b' | EMPTY; C: 'c' | A;", ["abc", "c", "a", ""]),
    "three-nt": ("S: A | B; A: C 'x'; B: C 'x'; C: 'c' | EMPTY;", ["cx", "x"]),
    # several nullable non-terminals: heads already processed in a frontier are revisited when a link is added later
    "multi-nullable": ("S: N0 N1 N1; N0: EMPTY | N1 | N1 N2 'b'; N1: N2 | N2 N2; N2: 'c' 'b' | EMPTY;", ["b", "", "cb", "cbb"], ["N0", "N1", "N2", "b", "c"]),
    # production priorities: R/R and S/R resolution walks follow sets (set order must not matter)
    "priorities": ("S: B 'x' | B 'y' | A 'x' | 't' 'y'; A: 't' {11}; B: 't';", ["tx", "ty"], ["x", "y", "t", "A", "B"]),
    # two imported files defining a same-named terminal (fqn a.SEP / b.SEP), both look-aheads of one completed item
    "imports": ({"root.pg": "import 'a.pg';\nimport 'b.pg';\nS: X a.SEP P | X b.SEP Q;\nX: 'x';\nP: 'p';\nQ: 'p';\n",
                 "a.pg": "terminals\nSEP: ',';\n", "b.pg": "terminals\nSEP: ',';\n"}, ["x,p", "x , p"], ["a.SEP", "b.SEP", "P", "Q", "X"]),
}

import atexit  # noqa
import shutil  # noqa
import tempfile  # noqa

_dirs = []
atexit.register(lambda: [shutil.rmtree(d, ignore_errors=True) for d in _dirs])


def make_grammar(text):
    """text is grammar text, or a dict of files (root.pg + imports) written to a scratch directory."""
    if isinstance(text, str):
        return Grammar.from_string(text)
    d = tempfile.mkdtemp(prefix="vp-c16-")
    _dirs.append(d)
    for name, body in text.items():
        with open(os.path.join(d, name), "w") as f:
            f.write(body)
    return Grammar.from_file(os.path.join(d, "root.pg"))


def cases(tier, seed):
    out = []
    names = ["nullable-AB", "ambig-expr", "dangling", "prop-c03", "priorities", "imports", "multi-nullable"] if tier == "quick" else list(GRAMMARS)
    for nm in names:
        out.append({"name": "ranks:%s" % nm, "params": {"kind": "ranks", "g": nm}, "budget_s": 3000, "hashseed": len(out)})
        out.append({"name": "seeds:%s" % nm, "params": {"kind": "seeds", "g": nm}})
    out.append({"name": "twin:ranks:rr", "params": {"kind": "ranks", "g": "rr", "twin": True}, "expect_refuted": True, "budget_s": 600})
    return out


def fingerprint(text, inputs):
    g = make_grammar(text)
    fp = {}
    for kind, it in (("LALR", LR_1), ("SLR", LR_0)):
        t = create_table(g, itemset_type=it, prefer_shifts=False, prefer_shifts_over_empty=False)
        fp[kind] = hashlib.sha256(json.dumps(table_to_serializable(t), sort_keys=True).encode()).hexdigest()
        # structural content of the conflict reports (their text also prints follow sets in set order: cosmetic)
        fp[kind + "-conflicts"] = [[type(c).__name__, c.state.state_id, c.term.name, [p.prod_id for p in c.productions]] for c in t.sr_conflicts + t.rr_conflicts]
    p = GLRParser(make_grammar(text))
    for d in _dirs:
        for fn in os.listdir(d):
            if fn.endswith(".pgc"):
                os.remove(os.path.join(d, fn))
    for w in inputs:
        try:
            f = p.parse(w)
            try:
                n = len(f)
                fp["forest:" + w] = [f[i].to_str() for i in range(min(n, 40))]
            except LoopError:
                fp["forest:" + w] = ["loop", f.get_first_tree().to_str()]
        except parglare.SyntaxError as e:
            fp["forest:" + w] = ["SyntaxError", e.location.start_position]
    return fp


def symbol_names(text):
    g = make_grammar(text)
    names = sorted(n for n in list(g.nonterminals) + list(g.terminals) if n not in ("S'", "STOP", "EMPTY"))
    return names


def build(params, symbolic):
    text, inputs = GRAMMARS[params["g"]][:2]
    names = symbol_names(text)
    if len(GRAMMARS[params["g"]]) > 2:
        names = [n for n in names if n in GRAMMARS[params["g"]][2]]  # ranks only for these; the others keep their real hash
    if len(names) > 5:
        names = names[:5]  # 6 symbols = 720 orders do not exhaust within budget (measured); ranks for 5, the rest keep their real hash
    k = len(names)
    twin = params.get("twin")
    first = {}
    seen_perms = set()
    stats = {"symbols": k}
    real_hash = hash

    def body(ranks):
        for r in ranks:
            if r < 0 or r >= k:
                raise Pre()
        for a in range(k):
            for b in range(a + 1, k):
                if ranks[a] == ranks[b]:
                    raise Pre()
        conc = [realize(r) for r in ranks]
        with native():
            table = dict(zip(names, conc))

            def shim(x):
                if isinstance(x, str) and x in table:
                    return table[x]
                return real_hash(x)

            G.hash = shim
            try:
                fp = fingerprint(text, inputs)
            finally:
                del G.hash
            if twin:
                fp["perm"] = conc[0]
            if not first:
                first.update(fp)
                first["__perm__"] = conc
            else:
                for key, v in fp.items():
                    if first.get(key) != v:
                        return "%s differs between hash orders %r and %r" % (key, first["__perm__"], conc)
        bump(stats, "permutations")
        seen_perms.add(tuple(conc))
        stats["distinct_permutations"] = len(seen_perms)
        return True

    if k == 3:
        def h(r0: int, r1: int, r2: int):
            return body([r0, r1, r2])
    elif k == 4:
        def h(r0: int, r1: int, r2: int, r3: int):
            return body([r0, r1, r2, r3])
    elif k == 5:
        def h(r0: int, r1: int, r2: int, r3: int, r4: int):
            return body([r0, r1, r2, r3, r4])
    elif k == 6:
        def h(r0: int, r1: int, r2: int, r3: int, r4: int, r5: int):
            return body([r0, r1, r2, r3, r4, r5])
    elif k == 7:
        def h(r0: int, r1: int, r2: int, r3: int, r4: int, r5: int, r6: int):
            return body([r0, r1, r2, r3, r4, r5, r6])
    else:
        raise AssertionError("unsupported symbol count %d" % k)
    if not symbolic:
        # native replay: compare the given permutation against the identity permutation
        inner = h

        def h2(**kw):
            import itertools

            for perm in itertools.permutations(range(k)):
                first.clear()
                inner(**{"r%d" % i: v for i, v in enumerate(perm)})
                r = inner(**kw)
                if not (r is True or r is None):
                    return r
            return True

        h2.stats = stats
        return h2
    h.stats = stats
    h.expect = [] if twin else ["permutations"]
    h.stubs = ["module-level hash shim in parglare.grammar", "realize_atomic"]
    return h


def run_case(params):
    if params["kind"] != "seeds":
        return None
    import time

    t0 = time.time()
    text, inputs = GRAMMARS[params["g"]][:2]
    code = "import sys, json; sys.path.insert(0, %r); from harness.c16 import fingerprint, GRAMMARS; t, i = GRAMMARS[%r][:2]; print(json.dumps(fingerprint(t, i), sort_keys=True))" % (
        os.path.dirname(os.path.dirname(os.path.abspath(__file__))), params["g"])
    outs = {}
    for seed in range(16):
        env = dict(os.environ)
        env["PYTHONHASHSEED"] = str(seed)
        p = subprocess.run([sys.executable, "-c", code], capture_output=True, text=True, env=env, timeout=120)
        outs[seed] = p.stdout.strip() if p.returncode == 0 else "ERROR " + p.stderr[-300:]
    distinct = sorted(set(outs.values()))
    bad = []
    if len(distinct) != 1 or distinct[0].startswith("ERROR"):
        s2 = [s for s in outs if outs[s] != outs[0]]
        bad.append({"args": {"g": params["g"], "seeds": [0] + s2[:1]}, "detail": "fingerprints differ between PYTHONHASHSEED 0 and %s" % s2[:3]})
    res = {"paths": 16, "confirmed": 16 - len(bad), "nontrivial": 16 - len(bad), "ignored": 0, "unknown": 0, "refuted": len(bad), "exhausted": True,
           "cpu_s": round(time.time() - t0, 2), "solver_calls": 0, "solver_s": 0.0, "solver_unknown": 0, "counterexamples": bad,
           "samples": [{"args": {"g": params["g"], "PYTHONHASHSEED": "0..15"}, "verdict": "identical fingerprints (native differential, no solver)", "choices": 0}],
           "unknown_reasons": [], "stopped": None}
    res["holds"] = not bad
    return {"result": res, "functions": [], "stubs": []}


def replay(rec):
    p = rec["params"]
    if p["kind"] == "seeds":
        r = run_case(p)
        return (not r["result"]["holds"]), str(r["result"]["counterexamples"])
    fn = build(p, symbolic=False)
    try:
        r = fn(**rec["args"])
    except Pre:
        return False, "precondition false"
    if r is True or r is None:
        return False, "holds on replay"
    return True, r
