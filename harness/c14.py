"""C14 - layout is invisible: changing layout between tokens never changes the parse."""
import parglare
from parglare import GLRParser, Grammar, Parser
from parglare.exceptions import LoopError, RRConflicts, SRConflicts

from vp import corpus, pgx, pyre
from vp.symx import Pre, Skip, build_guard

from .common import bump, length_of, spec_from_params

INFO = {
    "level": "other",
    "explanation": "Bounded symbolic execution of the real layout handling (Parser._skipws, the LAYOUT sub-parser built by "
    "Parser.__init__(in_layout=True), GLR _find_lookaheads) on symbolic w.  (A) for grammars with single-character "
    "terminals: the outcome of parse(w) (acceptance; result values; for errors the index of the offending token) equals "
    "the outcome of parse(strip(w)), strip removing every layout character - this covers inserting, removing and "
    "replacing layout before the first token, at every boundary and after the last token for every string in the bound; "
    "LR and GLR.  (A-comments) the same with a LAYOUT rule of whitespace, // line comments and /* */ block comments "
    "(regex model; acceptance and results).  (B) a parser with ws=' \\n\\t' against the same grammar with a LAYOUT rule "
    "matching exactly runs of those characters (string terminals): equal results, node positions, terminal "
    "layout_content and error positions; LR and GLR.",
    "bounds": {"quick": {"A": "N=5, 8 grammars", "A-comments": "N=4, 2 grammars, input alphabet {a b / * space newline x}; the reference comment stripper models the docs' comment idiom token by token and was compared natively with the real parser on every input of length <= 7 over {a / * space newline x}: equal up to length 5, from length 6 on the idiom's LALR layout parser reports a lexical ambiguity for a closing */ followed by // (NotComment is a look-ahead of the merged state) - outside", "B": "N=4, 6 grammars"},
               "thorough": {"A": "N=6", "A-comments": "N=5, 4 grammars, alphabet = the characters of the grammar's terminals + {/ * space newline x}", "B": "N=5, 14 grammars"}},
    "outside": "inputs longer than N; multi-character terminals whose boundaries depend on layout; custom layout_actions",
    "assumptions": ["get_context stubbed; realize-atomic marks", "regex model for WS / LineComment / NotComment (ASCII input there)"],
}

MANIFEST = {
    "level_text": "Bounded symbolic execution of both parsers: layout invariance is asserted as a metamorphic relation on one "
    "symbolic input (w vs. w with its layout removed), so all layout placements within the bound are covered at once; "
    "ws-parameter vs. LAYOUT-rule equivalence compares two real parsers on the same symbolic input.",
    "level_note": "Trusted: CrossHair proxies, z3, the 25-line reference comment stripper.  No reference parser is needed: "
    "both sides of every comparison are produced by parglare itself.",
}

A_SHAPES = ["leftrec", "expr", "paren", "nullable-mid", "ambig-binop", "list-sep", "two-nullables", "opt-list"]
B_SHAPES = ["leftrec", "expr", "nullable-mid", "ambig-concat", "nullable-end", "paren"]

LAYOUT_WS = "\nLAYOUT: LI | LAYOUT LI | EMPTY;\nLI: SP | NL | TB;\n"
LAYOUT_WS_T = "SP: ' ';\nNL: '\\n';\nTB: '\\t';"
# other ways to write "runs of the ws characters (or nothing)": left recursion first, or behind a nullable nonterminal
LAYOUT_SHAPES = {
    "std": LAYOUT_WS,
    "leftrec": "\nLAYOUT: LAYOUT LI | EMPTY;\nLI: SP | NL | TB;\n",
    "nested": "\nLAYOUT: Items;\nItems: Items LI | EMPTY;\nLI: SP | NL | TB;\n",
    "rightrec": "\nLAYOUT: LI LAYOUT | EMPTY;\nLI: SP | NL | TB;\n",
}
LAYOUT_CMT = """
LAYOUT: LayoutItem | LAYOUT LayoutItem | EMPTY;
LayoutItem: WS | Comment;
Comment: '/*' CorNCs '*/' | LineComment;
CorNCs: CorNC | CorNCs CorNC | EMPTY;
CorNC: Comment | NotComment | WS;
"""
LAYOUT_CMT_T = "WS: /\\s+/;\nLineComment: /\\/\\/.*/;\nNotComment: /((\\*[^\\/])|[^\\s*\\/]|\\/[^\\*])+/;"
WSCH = "\n\r\t "


def cases(tier, seed):
    out = []
    q = tier == "quick"
    for nm in A_SHAPES:
        for mode in ("lr", "glr"):
            out.append(_case("A", nm, mode, 5 if q else 6))
    for nm in (["leftrec", "nullable-mid"] if q else ["leftrec", "nullable-mid", "expr", "paren"]):
        for mode in ("lr", "glr"):
            c = _case("AC", nm, mode, 4 if q else 5)
            # 'x' stands for every character that is neither token nor comment syntax
            c["params"]["alphabet"] = "ab/* \nx" if q else "auto"  # auto: the characters of the grammar's terminals + / * space newline x
            out.append(c)
    names = B_SHAPES if q else B_SHAPES + ["midrec", "list-sep", "two-nullables", "opt-list", "hidden-left", "palindrome", "rightrec", "unit-chain"]
    for nm in names:
        for mode in ("lr", "glr"):
            out.append(_case("B", nm, mode, 4 if q else 5))
    for nm in ("leftrec", "nullable-mid"):
        for mode in ("lr", "glr"):
            for shp in ("leftrec", "nested", "rightrec"):
                c = _case("B", nm, mode, 4)
                c["name"] += "|LAYOUT=" + shp
                c["params"]["lshape"] = shp
                out.append(c)
            c = _case("B", nm, mode, 4)
            c["name"] += "|ws=None"
            c["params"]["wsnone"] = True  # with a LAYOUT rule the ws parameter is irrelevant, also when it is None
            out.append(c)
    tw = _case("A", "leftrec", "lr", 3)
    tw["name"] = "twin:" + tw["name"]
    tw["params"]["twin"] = True
    tw["expect_refuted"] = True
    out.append(tw)
    return out


def _case(kind, nm, mode, N):
    g = corpus.shape(nm)
    return {"name": "%s:%s|%s|N=%d" % (kind, nm, mode, N),
            "params": {"kind": kind, "grammar": g.short(), "gname": nm, "mode": mode, "N": N}, "budget_s": 3000}


def _isspace(c):
    return c in " \t\n\r\x0b\x0c\x1c\x1d\x1e\x1f"


def _notcomment_end(w, n, k):
    """End of the greedy match of NotComment = /((\\*[^\\/])|[^\\s*\\/]|\\/[^\\*])+/ at k (k itself when it does not match)."""
    while k < n:
        c = w[k]
        if c == "*":
            if k + 1 < n and w[k + 1] != "/":
                k += 2
            else:
                break
        elif c == "/":
            if k + 1 < n and w[k + 1] != "*":
                k += 2
            else:
                break
        elif _isspace(c):
            break
        else:
            k += 1
    return k


def _line_end(w, n, k):
    while k < n and w[k] != "\n":
        k += 1
    return k


def _block_end(w, n, j):
    """Position after the block comment whose body starts at j, as the comment idiom of the docs (LAYOUT_CMT) tokenises
    it, or None when that layout parse fails.  In the body the string terminals '*/' and '/*' come first; otherwise the
    longest of WS, LineComment and NotComment wins (a tie is a lexical ambiguity, i.e. a failure)."""
    while True:
        if j >= n:
            return None
        if w[j] == "*" and j + 1 < n and w[j + 1] == "/":
            return j + 2
        if w[j] == "/" and j + 1 < n and w[j + 1] == "*":
            j = _block_end(w, n, j + 2)
            if j is None:
                return None
            continue
        if _isspace(w[j]):
            while j < n and _isspace(w[j]):
                j += 1
            continue
        e_nc = _notcomment_end(w, n, j)
        e_lc = _line_end(w, n, j + 2) if (w[j] == "/" and j + 1 < n and w[j + 1] == "/") else j
        if e_nc == j and e_lc == j:
            return None
        if e_nc == e_lc:
            return None
        j = max(e_nc, e_lc)


def strip_comments(w, n):
    """Reference: remove what the LAYOUT rule of the docs' comment idiom (LAYOUT_CMT: whitespace, // line comments,
    nested /* */ block comments whose body is tokenised by the NotComment regex) takes as layout.  Returns
    (stripped chars, ok) - ok False when a layout parse that has begun a block comment fails (unterminated comment; a
    body the idiom's NotComment regex cannot tokenise up to the closing mark, e.g. /***/)."""
    out = []
    i = 0
    while i < n:
        c = w[i]
        if _isspace(c):
            i += 1
        elif c == "/" and i + 1 < n and w[i + 1] == "/":
            i = _line_end(w, n, i + 2)
        elif c == "/" and i + 1 < n and w[i + 1] == "*":
            j = _block_end(w, n, i + 2)
            if j is None:
                return out, False
            i = j
        else:
            out.append(c)
            i += 1
    return out, True


def build(params, symbolic):
    spec = spec_from_params(params)
    kind, mode, N = params["kind"], params["mode"], params["N"]
    twin = params.get("twin")
    text = spec.text()
    Cls = Parser if mode == "lr" else GLRParser
    kw = {"build_tree": True} if mode == "lr" else {}
    pats = []

    def mk(t, **k2):
        g = Grammar.from_string(t)
        if symbolic:
            pats.extend(pyre.install(g, "a/* \n", 4) if "NotComment" in t else [])
        try:
            with build_guard(20):
                k3 = dict(kw)
                k3.update(k2)
                return Cls(g, **k3)
        except (SRConflicts, RRConflicts) as e:
            raise Skip("Parser() does not construct: %s" % type(e).__name__)

    tsec = "" if "terminals" in text else "terminals\n"
    if kind == "A":
        p1 = mk(text)
        p2 = p1
    elif kind == "AC":
        p1 = mk(text + LAYOUT_CMT + tsec + LAYOUT_CMT_T)
        p2 = mk(text)  # the stripped input is parsed WITHOUT the comment layout (stripping may join '/' '/' into a new comment)
    else:
        p1 = mk(text, ws=" \n\t")
        lkw = {"ws": None} if params.get("wsnone") else {}
        p2 = mk(text + LAYOUT_SHAPES[params.get("lshape", "std")] + tsec + LAYOUT_WS_T, **lkw)
    stats = {}

    def outcome(parser, w, n, laychars, with_pos):
        """('ok', payload) | ('err', token index or position)"""
        try:
            r = parser.parse(w)
        except parglare.exceptions.DisambiguationError:
            if kind != "AC":
                raise
            return ("err", "lexical ambiguity inside the comment grammar")
        except parglare.SyntaxError as e:
            pos = e.location.start_position
            if with_pos:
                return ("err", pos)
            k = 0
            for i in range(min(pos, n)):
                if w[i] not in laychars:
                    k += 1
            return ("err", k)
        if mode == "lr":
            t = pgx.conv(r)
            if with_pos:
                return ("ok", t, [(lf.start_position, lf.layout_content) for lf in _terms(r)])
            return ("ok", pgx.strip_pos(t), [lf.value for lf in _terms(r)])
        try:
            cnt = len(r)
        except LoopError:
            return ("ok", "cyclic")
        trees = [r[i] for i in range(min(cnt, 16))]
        if with_pos:
            return ("ok", cnt, [pgx.conv(t) for t in trees], [[(lf.start_position, lf.layout_content) for lf in _terms(t)] for t in trees])
        return ("ok", cnt, [pgx.strip_pos(pgx.conv(t)) for t in trees])

    def _terms(nd, out=None):
        out = [] if out is None else out
        if nd.is_term():
            out.append(nd)
        else:
            for c in nd:
                _terms(c, out)
        return out

    def h(w: str):
        n = length_of(w, N)
        if kind == "B":
            # the same LAYOUT-rule parser instance first sees the input without layout: layout handling must not
            # carry anything over from one parse to the next
            sw0 = "".join([w[i] for i in range(n) if w[i] not in " \n\t"])
            outcome(p2, sw0, len(sw0), None, True)
            a = outcome(p1, w, n, None, True)
            b = outcome(p2, w, n, None, True)
            if a != b:
                return "ws parameter gives %r, LAYOUT rule gives %r" % (a, b)
            bump(stats, a[0])
            return True
        if kind == "A":
            sw = "".join([w[i] for i in range(n) if w[i] not in WSCH])
            if twin:
                sw = "".join([w[i] for i in range(n) if w[i] not in WSCH + "a"])
            a = outcome(p1, w, n, WSCH, False)
            b = outcome(p1, sw, len(sw), WSCH, False)
            if a != b:
                return "parse(w) gives %r, parse(w without layout) gives %r" % (a, b)
            bump(stats, a[0])
            return True
        # comments
        alpha = params.get("alphabet")
        if alpha == "auto":
            alpha = "".join(sorted({ch for k_, v_ in spec.terms.values() for ch in v_})) + "/* \nx"
        for i in range(n):
            if w[i] > "\x7f" or (alpha and w[i] not in alpha):
                raise Pre()
        chars, ok = strip_comments(w, n)
        sw = "".join(chars)
        a = outcome(p1, w, n, WSCH, False)
        if not ok:
            if a[0] != "err":
                return "input accepted although the layout parse of a block comment fails"
            bump(stats, "unterminated")
            return True
        b = outcome(p2, sw, len(sw), WSCH, False)
        if a[0] != b[0] or (a[0] == "ok" and a != b):  # error index is not compared: a failing layout sub-parse reports its own position
            return "parse(w) gives %r, parse(w without layout/comments) gives %r" % (a, b)
        bump(stats, a[0])
        return True

    h.stats = stats
    h.expect = [] if twin else ["ok", "err"]
    h.stubs = ["realize_atomic", "get_context"] + (["regex model for %s" % sorted(set(pats))] if pats else [])
    return h
