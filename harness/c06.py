"""C06 - priorities and associativity give the conventional operator-precedence parse."""
import itertools
import json

import parglare
from parglare import GLRParser, Grammar, Parser
from parglare.closure import LR_1
from parglare.grammar import ASSOC_LEFT, ASSOC_NONE, ASSOC_RIGHT
from parglare.tables import ACCEPT, REDUCE, SHIFT, create_table
from parglare.tables.persist import table_to_serializable

from vp.symx import Pre, Skip, native

from .common import bump

OPS = ["+", "*", "^", "%"]

INFO = {
    "level": "other",
    "explanation": "The real create_table (S/R and R/R resolution, _max_prior_per_symbol, LRTable bookkeeping) runs inside "
    "every path on the skeleton E: E op_1 E | ... | E op_k E | '(' E ')' | 'n' whose operator productions carry "
    "SYMBOLIC UNBOUNDED integer priorities p_i (associativity vector and order of alternatives are the concrete case "
    "split; precondition: equal priority => equal associativity).  One path = one weak ordering of the priorities. "
    "Asserted per path: (T) no S/R or R/R conflict, and in every state with a completed E: E op_i E . the cell for "
    "op_j is exactly REDUCE i when p_i > p_j or (p_i == p_j and left_i), else exactly SHIFT; (P) the real Parser "
    "(strategies off) and GLRParser, driven by that table, return for every expression of a concrete list the tree "
    "an operator-precedence reference parser builds under the symbolic ordering, GLR with exactly one tree; "
    "(I) on the stratified LALR(1) grammar E/T/F symbolic priorities and associativities on every production leave "
    "the serialised table equal to the default one.  The grammar-text front end ({left, 7} meta-data -> "
    "Production.prior/assoc) is tied natively at build time for concrete witnesses of every weak ordering.",
    "bounds": {
        "quick": {"k": "2 (all orders) and 3 (3 orders)", "expressions": "<= 3 operators, 3 parenthesisation patterns"},
        "thorough": {"k": "2..4", "expressions": "<= 4 operators"},
    },
    "outside": "more than 4 operators; negative priorities cannot be written in the grammar language; unary operators",
    "assumptions": [
        "priorities/associativities are assigned to Production.prior/.assoc of a grammar parsed once (the meta-data front "
        "end is checked natively, not symbolically)",
        "grammar.productions[0].rhs is restored at the start of every path (an aborted path may leave it swapped)",
        "native replay of a counterexample tries two members of its weak-ordering class: the solver's values and the same + 1000 "
        "(distinct int objects, as parsed from grammar text)",
    ],
}

MANIFEST = {
    "technique": "bounded symbolic execution of the real create_table with unbounded symbolic production priorities (CrossHair engine + z3); one path per weak ordering; parsing of concrete expressions runs natively on the path's table",
    "level_text": "Bounded symbolic execution of the real conflict-resolution code: operator priorities are unbounded "
    "solver integers, so every path stands for a whole weak ordering of priorities; exhaustive over orderings for "
    "k <= 3 (4 in thorough) operators, all associativity vectors, and the listed alternative orders.",
    "level_note": "Trusted: CrossHair int proxies, z3; reference operator-precedence parser (30 lines).  Number of "
    "operators and expression size are the bounds; 5-6 operators are outside.",
}


def skeleton(k, order):
    ops = [OPS[i] for i in order]
    alts = ["E '%s' E" % o for o in ops] + ["'(' E ')'", "'n'"]
    return "E: " + " | ".join(alts) + ";"


def expressions(k, maxops):
    out = []
    for n in range(1, maxops + 1):
        for seq in itertools.product(range(k), repeat=n):
            toks = ["n"]
            for o in seq:
                toks += [OPS[o], "n"]
            out.append(toks)
            if n >= 2:
                out.append(["(", "n", OPS[seq[0]], "n", ")"] + toks[3:])
                out.append(toks[:-3] + ["(", "n", OPS[seq[-1]], "n", ")"])
    return out


def ref_parse(toks, tighter):
    """Operator-precedence reference.  tighter[i][j]: reduce op_i before shifting op_j."""
    pos = [0]

    def primary():
        t = toks[pos[0]]
        pos[0] += 1
        if t == "(":
            e = expr()
            assert toks[pos[0]] == ")"
            pos[0] += 1
            return ["(", e, ")"]
        return t

    def expr():
        operands = [primary()]
        ops = []

        def reduce():
            o = ops.pop()
            r = operands.pop()
            l = operands.pop()
            operands.append([l, OPS[o], r])

        while pos[0] < len(toks) and toks[pos[0]] in OPS:
            j = OPS.index(toks[pos[0]])
            pos[0] += 1
            while ops and tighter[ops[-1]][j]:
                reduce()
            ops.append(j)
            operands.append(primary())
        while ops:
            reduce()
        return operands[0]

    return expr()


def cases(tier, seed):
    out = []
    if tier == "quick":
        plan = [(2, list(itertools.permutations(range(2))), 3), (3, [(0, 1, 2), (2, 1, 0), (1, 2, 0)], 3)]
    else:
        plan = [(2, list(itertools.permutations(range(2))), 4), (3, list(itertools.permutations(range(3))), 4),
                (4, [(0, 1, 2, 3), (3, 2, 1, 0), (1, 2, 3, 0), (2, 3, 0, 1)], 3)]
    for k, orders, maxops in plan:
        for order in orders:
            for lefts in itertools.product((True, False), repeat=k):
                out.append({
                    "name": "ops k=%d order=%s left=%s" % (k, "".join(map(str, order)), "".join("LR"[not l] for l in lefts)),
                    "params": {"kind": "ops", "k": k, "order": list(order), "left": list(lefts), "maxops": maxops},
                    "budget_s": 1500 if k < 4 else 5000,
                })
    out.append({"name": "insensitive LALR(1) E/T/F", "params": {"kind": "insens"}, "budget_s": 1500})
    out.append({
        "name": "twin:ops k=2", "params": {"kind": "ops", "k": 2, "order": [0, 1], "left": [True, True], "maxops": 2, "twin": True},
        "expect_refuted": True, "budget_s": 300,
    })
    return out


def build(params, symbolic):
    if params["kind"] == "ops":
        return build_ops(params, symbolic)
    return build_insens(params, symbolic)


def _frontend_tie(k, order, lefts):
    """Native: priorities/associativity written as grammar meta-data land in Production.prior/.assoc,
    and the table built from the text equals the table built by attribute assignment."""
    ops = [OPS[i] for i in order]
    for prios in itertools.product(range(0, k + 1), repeat=k):  # 0 included: a declared priority 0 is not 'missing'
        if any(prios[a] == prios[b] and lefts[a] != lefts[b] for a in range(k) for b in range(k)):
            continue
        alts = ["E '%s' E {%s, %d}" % (OPS[i], "left" if lefts[i] else "right", prios[i]) for i in order]
        text = "E: " + " | ".join(alts + ["'(' E ')'", "'n'"]) + ";"
        g1 = Grammar.from_string(text)
        g2 = Grammar.from_string(skeleton(k, order))
        for n, i in enumerate(order):
            p1 = g1.productions[1 + n]
            if p1.prior != prios[i] or p1.assoc != (ASSOC_LEFT if lefts[i] else ASSOC_RIGHT):
                raise AssertionError("front end: %s gives prior=%r assoc=%r" % (text, p1.prior, p1.assoc))
            g2.productions[1 + n].prior = prios[i]
            g2.productions[1 + n].assoc = ASSOC_LEFT if lefts[i] else ASSOC_RIGHT
        t1 = table_to_serializable(create_table(g1, LR_1, 1, False, False))
        t2 = table_to_serializable(create_table(g2, LR_1, 1, False, False))
        if json.dumps(t1, sort_keys=True) != json.dumps(t2, sort_keys=True):
            raise AssertionError("front end: table from text differs from table by assignment for %s" % text)


def build_ops(params, symbolic):
    k, order, lefts, maxops = params["k"], params["order"], params["left"], params["maxops"]
    twin = params.get("twin")
    grammar = Grammar.from_string(skeleton(k, order))
    saved_rhs = grammar.productions[0].rhs
    # production of operator i
    prod_of = {i: grammar.productions[1 + n] for n, i in enumerate(order)}
    term_of = {i: grammar.get_terminal(OPS[i]) for i in range(k)}
    exprs = expressions(k, maxops)
    tie_problem = None
    try:
        _frontend_tie(k, order, lefts)
    except AssertionError as e:
        tie_problem = str(e)
    stats = {}

    def body(ps):
        if not symbolic and not params.get("_shifted"):
            # Native replay: a counterexample stands for its weak ordering of the priorities, so two members of
            # the class are tried - the solver's values and the same values + 1000 (distinct int objects, as the
            # grammar front end produces for every priority it parses; small ints are shared by CPython).
            params["_shifted"] = True
            try:
                r = body(ps)
                if r is not True and r is not None:
                    return r
                return body([int(str(p + 1000)) for p in ps])
            finally:
                params.pop("_shifted", None)
        if tie_problem:
            return tie_problem
        grammar.productions[0].rhs = saved_rhs
        for a in range(k):
            for b in range(a + 1, k):
                if ps[a] == ps[b] and lefts[a] != lefts[b]:
                    raise Pre()
        for i in range(k):
            prod_of[i].prior = ps[i]
            prod_of[i].assoc = ASSOC_LEFT if lefts[i] else ASSOC_RIGHT
        table = create_table(grammar, itemset_type=LR_1, start_production=1, prefer_shifts=False, prefer_shifts_over_empty=False)
        tighter = [[bool(ps[i] > ps[j] or (ps[i] == ps[j] and lefts[i])) for j in range(k)] for i in range(k)]
        if twin:
            tighter[0][1] = not tighter[0][1]
        # (T)
        if table.sr_conflicts or table.rr_conflicts:
            return "conflicts reported: %d S/R, %d R/R" % (len(table.sr_conflicts), len(table.rr_conflicts))
        ncell = 0
        for st in table.states:
            for it in st.items:
                if it.is_at_end:
                    for i in range(k):
                        if it.production is prod_of[i]:
                            for j in range(k):
                                cell = st.actions.get(term_of[j], [])
                                ncell += 1
                                if len(cell) != 1:
                                    return "cell (state %d, %s) holds %d actions" % (st.state_id, OPS[j], len(cell))
                                a = cell[0]
                                if tighter[i][j]:
                                    if not (a.action == REDUCE and a.prod is prod_of[i]):
                                        return "state %d on %s: expected REDUCE %s, found %s" % (st.state_id, OPS[j], OPS[i], a)
                                else:
                                    if a.action != SHIFT:
                                        return "state %d on %s: expected SHIFT, found %s" % (st.state_id, OPS[j], a)
        if ncell < k * k:
            return "only %d precedence cells found" % ncell
        # (P)
        # the table is concrete on this path: parsing concrete expressions involves no symbolic value
        with native():
            lr = Parser(grammar, table=table)
            glr = GLRParser(grammar, table=table)
            for toks in exprs:
                text = " ".join(toks)
                want = ref_parse(toks, tighter)
                got = lr.parse(text)
                if got != want:
                    return "Parser(%r) = %r, reference %r" % (text, got, want)
                forest = glr.parse(text)
                if len(forest) != 1:
                    return "GLRParser(%r) returned %d trees" % (text, len(forest))
                got2 = glr.call_actions(forest[0])
                if got2 != want:
                    return "GLRParser(%r) = %r, reference %r" % (text, got2, want)
        bump(stats, "orderings")
        return True

    if k == 2:
        def h(p0: int, p1: int):
            return body([p0, p1])
    elif k == 3:
        def h(p0: int, p1: int, p2: int):
            return body([p0, p1, p2])
    else:
        def h(p0: int, p1: int, p2: int, p3: int):
            return body([p0, p1, p2, p3])

    h.stats = stats
    h.expect = [] if twin else ["orderings"]
    h.stubs = ["realize_atomic", "get_context"]
    return h


ETF = "E: E '+' T | T; T: T '*' F | F; F: '(' E ')' | 'n';"


def build_insens(params, symbolic):
    grammar = Grammar.from_string(ETF)
    saved_rhs = grammar.productions[0].rhs
    base = json.dumps(table_to_serializable(create_table(grammar, LR_1, 1, False, False)), sort_keys=True)
    grammar.productions[0].rhs = saved_rhs
    prods = grammar.productions[1:]
    texts = ["n", "n + n", "n * n + n", "( n + n ) * n", "n + n * n * n", "( ( n ) )"]
    g0 = Grammar.from_string(ETF)
    want = [Parser(g0).parse(t) for t in texts]
    stats = {}

    def h(p0: int, p1: int, p2: int, p3: int, p4: int, p5: int, a0: int, a1: int, a2: int, a3: int, a4: int, a5: int):
        grammar.productions[0].rhs = saved_rhs
        ps = [p0, p1, p2, p3, p4, p5]
        as_ = [a0, a1, a2, a3, a4, a5]
        for a in as_:
            if a < 0 or a > 2:
                raise Pre()
        for p, pr, a in zip(prods, ps, as_):
            p.prior = pr
            p.assoc = [ASSOC_NONE, ASSOC_LEFT, ASSOC_RIGHT][a]
        table = create_table(grammar, itemset_type=LR_1, start_production=1, prefer_shifts=False, prefer_shifts_over_empty=False)
        got = json.dumps(table_to_serializable(table), sort_keys=True)
        if got != base:
            return "priorities/associativities changed the table of an LALR(1) grammar"
        if table.sr_conflicts or table.rr_conflicts:
            return "conflicts on an LALR(1) grammar"
        with native():
            lr = Parser(grammar, table=table)
            for t, w in zip(texts, want):
                if lr.parse(t) != w:
                    return "result of %r changed" % t
        bump(stats, "vectors")
        return True

    h.stats = stats
    h.expect = ["vectors"]
    h.stubs = ["realize_atomic", "get_context"]
    return h
