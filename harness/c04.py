"""C04 - the LR parser is sound always and exact when its table is deterministic."""
import parglare
from parglare import GLRParser, Grammar, Parser
from parglare.exceptions import DisambiguationError, RRConflicts, SRConflicts

from vp import corpus, pgx, refcfg
from vp.symx import Pre, Skip, build_guard

from .common import TABLES, bump, excluded_inputs, length_of, norm, norm_in, selfcheck_oracle, spec_from_params

INFO = {
    "level": "other",
    "explanation": "Bounded symbolic execution of the real Parser.parse(build_tree=True) (and GLRParser.parse for the "
    "exactness clause) on symbolic w, len(w) <= N, for every option vector (prefer_shifts, prefer_shifts_over_empty) "
    "x {LALR, SLR} under which Parser() constructs.  Every path: a returned tree implies reference membership and "
    "is a whole valid derivation (root, productions, leaves == tokens).  When every table cell holds one action, both "
    "strategies are off and terminals do not overlap lexically: the reference finds at most one derivation for "
    "every explored w, Parser accepts iff the reference does, and the GLR forest has exactly one tree equal to Parser's.",
    "bounds": {
        "quick": {"N": 4, "grammars": "GF-shapes + stratified GF-tiny(3) x 8 option vectors (those that construct) + 40 of 300 fixed random 3-nonterminal grammars x {LALR, SLR}, strategies off"},
        "thorough": {"N": "5 for shapes, 4 for all GF-tiny(3)"},
    },
    "outside": "inputs longer than N, grammars outside the families, grammars with priorities/associativities",
    "assumptions": [
        "get_context stubbed; parglare classes realize-atomic",
        "exactness clause only claimed for grammars whose terminals are pairwise non-overlapping single characters",
    ],
}

MANIFEST = {
    "level_text": "Bounded symbolic execution of the real LR parser under every construction option vector that "
    "builds: soundness (accept => sentence, built tree is a derivation) on every path of an exhausted path tree; "
    "exactness (accept <=> sentence, GLR forest == the one LR tree, grammar unambiguous within the bound) when the "
    "table is deterministic without strategies.",
    "level_note": "Trusted: CrossHair proxies, z3, reference recogniser/enumerator.  Vectors for which Parser() raises "
    "SR/RRConflicts are the property's excluded premise and are skipped (counted).",
}

QUICK_SHAPES = [
    "leftrec", "rightrec", "midrec", "ambig-binop", "ambig-concat-null", "hidden-left", "nullable-chain",
    "nullable-start", "two-nullables", "lr2", "lr1-not-lalr", "dangling-else", "lex-a-aa", "lex-prefix", "expr",
    "paren", "opt-list", "unit-chain", "rr-conflict", "palindrome", "g7", "right-nullable", "reduce-many-empty",
    "hidden-left-2", "item-then-list", "bottom-up-order", "first-empty-2", "unit-chain-empty",
]


def cases(tier, seed):
    out = []
    if tier == "quick":
        gs = [corpus.shape(n) for n in QUICK_SHAPES] + corpus.stratified(corpus.gf_tiny(3), 10, seed)
        N = 4
        vecs = [(ps, pse, tb) for ps in (False, True) for pse in (False, True) for tb in ("LALR", "SLR")]
        for g in gs:
            for ps, pse, tb in vecs:
                out.append(_case(g, tb, ps, pse, N))
        r3 = corpus.random3_fixed()
        import random as _r

        for g in _r.Random(seed).sample(r3, 40):
            for tb in ("LALR", "SLR"):
                out.append(_case(g, tb, False, False, N))
    else:
        vecs = [(ps, pse, tb) for ps in (False, True) for pse in (False, True) for tb in ("LALR", "SLR")]
        for g in corpus.shapes():
            for ps, pse, tb in vecs:
                out.append(_case(g, tb, ps, pse, 5, 1500))
        for g in corpus.gf_tiny(3):
            for ps, pse, tb in [(False, False, "LALR"), (True, True, "LALR"), (False, False, "SLR")]:
                out.append(_case(g, tb, ps, pse, 4))
        for g in corpus.random3_fixed():
            for tb in ("LALR", "SLR"):
                out.append(_case(g, tb, False, False, 4))
    tw = _case(corpus.shape("leftrec"), "LALR", False, False, 3)
    tw["name"] = "twin:" + tw["name"]
    tw["params"]["twin"] = "ba"
    tw["expect_refuted"] = True
    out.append(tw)
    return out


def _case(g, tb, ps, pse, N, budget=600):
    return {
        "name": "%s|%s|ps=%d|pse=%d|N=%d" % (g.name, tb, ps, pse, N),
        "params": {"grammar": g.short(), "gname": g.name, "tables": tb, "ps": ps, "pse": pse, "N": N},
        "budget_s": budget,
    }


def build(params, symbolic):
    spec = spec_from_params(params)
    N = params["N"]
    ps, pse = params["ps"], params["pse"]
    grammar = Grammar.from_string(spec.text())
    try:
        with build_guard(20, "parser construction (termination is C05's subject)"):
            parser = Parser(
                grammar, build_tree=True, tables=TABLES[params["tables"]], prefer_shifts=ps, prefer_shifts_over_empty=pse
            )
    except (SRConflicts, RRConflicts) as e:
        raise Skip("Parser() does not construct under this option vector: %s" % type(e).__name__)
    single = all(len(a) == 1 for s in parser.table.states for a in s.actions.values())
    texts = [v for _, v in spec.terms.values()]
    no_overlap = all(len(t) == 1 for t in texts) and len(set(texts)) == len(texts)
    exact = single and not ps and not pse and no_overlap
    glr = None
    if exact:
        glr = GLRParser(Grammar.from_string(spec.text()), tables=TABLES[params["tables"]])
    if symbolic:
        selfcheck_oracle(spec, min(N, 4))
    twin = params.get("twin")
    stats = {"exact_mode": int(exact)}

    def h(w: str):
        n = length_of(w, N)
        tree = None
        try:
            tree = parser.parse(w)
            acc = True
        except parglare.SyntaxError:
            acc = False
        except DisambiguationError:
            if no_overlap:
                return "DisambiguationError although terminals do not overlap"
            bump(stats, "lexamb")
            return True
        lex, ey = refcfg.analyse(spec, w, n)
        member = ey.accepted
        if twin is not None and norm_in(norm(w, n, spec.ws), [twin]):
            member = not member
        if acc:
            bump(stats, "accepted")
            if not member:
                return "Parser accepted a non-sentence"
            why = pgx.check_tree(spec, pgx.conv(tree), w, n, lex, end=n)
            if why:
                return "Parser's tree is not a derivation: %s" % why
        else:
            bump(stats, "rejected")
        if exact:
            if member:
                kind, trees, _ = refcfg.derivations(spec, lex, ey, limit=50)
                if kind != "fin" or len(trees) != 1:
                    return "deterministic table but the reference finds %s derivations" % (kind if kind != "fin" else len(trees))
                if not acc:
                    return "deterministic parser rejected a sentence"
                forest = glr.parse(w)
                if len(forest) != 1:
                    return "GLR forest has %d trees on a deterministic table" % len(forest)
                if pgx.conv(forest[0]) != pgx.conv(tree):
                    return "GLR tree differs from the LR tree"
                bump(stats, "exact_checked")
            elif acc:
                return "accepted non-sentence"
        return True

    h.stats = stats
    h.expect = [] if twin else ["rejected"]
    h.stubs = ["realize_atomic", "get_context"]
    return h
