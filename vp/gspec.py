"""Grammar specifications as plain data (never read back from parglare objects).

GSpec(prods, terms, ws) where
  prods : list of (lhs, (rhs symbol names...)); first lhs is the start symbol; () is the empty RHS
  terms : dict terminal-name -> ('s', text) | ('r', regex-pattern)
  ws    : layout characters skipped before every token (parglare's `ws` parameter), or '' for none
The parglare grammar text is *generated* from this data.
"""
from dataclasses import dataclass, field
from typing import Dict, List, Tuple

DEFAULT_WS = "\n\r\t "


def _q(text):
    return "'" + text.replace("\\", "\\\\").replace("'", "\\'").replace("\n", "\\n").replace("\t", "\\t") + "'"


@dataclass
class GSpec:
    prods: List[Tuple[str, Tuple[str, ...]]]
    terms: Dict[str, Tuple[str, str]]
    ws: str = DEFAULT_WS
    name: str = ""
    extra_text: str = ""  # appended verbatim (e.g. LAYOUT rules) - the oracle gets its meaning via ws/layout fields
    meta: Dict = field(default_factory=dict)

    def __post_init__(self):
        self.prods = [(l, tuple(r)) for l, r in self.prods]
        self.nonterms = []
        for l, _ in self.prods:
            if l not in self.nonterms:
                self.nonterms.append(l)
        self.start = self.prods[0][0]
        self.by_lhs = {}
        for i, (l, r) in enumerate(self.prods):
            self.by_lhs.setdefault(l, []).append(i)
        for l, r in self.prods:
            for s in r:
                assert s in self.terms or s in self.by_lhs, "undefined symbol %r" % s
        self.nullable = self._nullable()

    # ------------------------------------------------------------------ analysis
    def _nullable(self):
        nl = set()
        ch = True
        while ch:
            ch = False
            for l, r in self.prods:
                if l not in nl and all(s in nl for s in r):
                    nl.add(l)
                    ch = True
        return nl

    def productive(self):
        pr = set()
        ch = True
        while ch:
            ch = False
            for l, r in self.prods:
                if l not in pr and all(s in self.terms or s in pr for s in r):
                    pr.add(l)
                    ch = True
        return pr

    def reachable(self):
        seen = {self.start}
        todo = [self.start]
        while todo:
            x = todo.pop()
            for i in self.by_lhs.get(x, []):
                for s in self.prods[i][1]:
                    if s in self.by_lhs and s not in seen:
                        seen.add(s)
                        todo.append(s)
        return seen

    def used_terms(self):
        return [t for t in self.terms if any(t in r for _, r in self.prods)]

    def is_cyclic(self):
        """True iff some nonterminal derives itself (A =>+ A)."""
        unit = {n: set() for n in self.nonterms}
        for l, r in self.prods:
            for k, s in enumerate(r):
                if s in self.by_lhs and all(
                    (x in self.nullable) for j, x in enumerate(r) if j != k
                ):
                    unit[l].add(s)
        # transitive closure
        for n in self.nonterms:
            seen = set()
            todo = list(unit[n])
            while todo:
                x = todo.pop()
                if x == n:
                    return True
                if x in seen:
                    continue
                seen.add(x)
                todo.extend(unit[x])
        return False

    def well_formed(self):
        return set(self.nonterms) == self.productive() == self.reachable() or (
            set(self.nonterms) == self.productive() and set(self.nonterms) == self.reachable()
        )

    # ------------------------------------------------------------------ text
    def term_ref(self, t):
        kind, val = self.terms[t]
        if kind == "s" and t == val:
            return _q(val)
        return t

    def text(self, prod_meta=None, rule_meta=None):
        """parglare grammar text.  prod_meta: {prod_index: '{left, 5}'}"""
        lines = []
        for n in self.nonterms:
            alts = []
            for i in self.by_lhs[n]:
                r = self.prods[i][1]
                body = " ".join(self.term_ref(s) if s in self.terms else s for s in r) if r else "EMPTY"
                if prod_meta and i in prod_meta:
                    body += " " + prod_meta[i]
                alts.append(body)
            head = n
            if rule_meta and n in rule_meta:
                head += " " + rule_meta[n]
            lines.append("%s: %s;" % (head, " | ".join(alts)))
        if self.extra_text:
            lines.append(self.extra_text)
        decl = []
        for t, (kind, val) in self.terms.items():
            if kind == "s" and t == val:
                continue
            m = self.meta.get("term_meta", {}).get(t, "")
            if kind == "s":
                decl.append("%s: %s%s;" % (t, _q(val), m))
            elif kind == "r":
                decl.append("%s: /%s/%s;" % (t, val, m))
            elif kind == "c":  # custom recognizer supplied from Python
                decl.append("%s: %s;" % (t, m))
        extra_terms = self.meta.get("extra_terms", "")
        if decl or extra_terms:
            lines.append("terminals")
            lines.extend(decl)
            if extra_terms:
                lines.append(extra_terms)
        return "\n".join(lines)

    def short(self):
        out = []
        for n in self.nonterms:
            alts = [" ".join(self.prods[i][1]) or "EMPTY" for i in self.by_lhs[n]]
            out.append("%s: %s;" % (n, " | ".join(alts)))
        return " ".join(out)


def parse_short(text, terms=None, ws=DEFAULT_WS, name=""):
    """'S: A a | EMPTY; A: S S;' -> GSpec.  Lower-case / punctuation symbols are string terminals."""
    prods = []
    lhss = []
    rules = [r.strip() for r in text.split(";") if r.strip()]
    for r in rules:
        l, body = r.split(":", 1)
        lhss.append(l.strip())
    tset = dict(terms or {})
    for r in rules:
        l, body = r.split(":", 1)
        l = l.strip()
        for alt in body.split("|"):
            syms = alt.split()
            if syms == ["EMPTY"]:
                syms = []
            for s in syms:
                if s not in lhss and s not in tset:
                    tset[s] = ("s", s)
            prods.append((l, tuple(syms)))
    return GSpec(prods, tset, ws=ws, name=name or text)
