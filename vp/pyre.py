"""PyRegex - a small backtracking interpreter over the tree CPython's own re._parser produces.

Replaces only the C matcher (`pattern.match(s, pos)`): the pattern text and flags are whatever the
real code compiled.  Works on symbolic strings (all indices are concrete ints).  ASCII semantics for
\\w \\d \\s and case folding - harnesses using it assume input characters <= '\\x7f'.
Unsupported opcodes raise NotImplementedError at construction time.
"""
import re

try:  # py3.11+
    import re._parser as sre_parse
    import re._constants as C
except ImportError:  # pragma: no cover
    import sre_parse
    import sre_constants as C


def _isword(o):
    return (48 <= o <= 57) or (65 <= o <= 90) or (97 <= o <= 122) or o == 95


def _isdigit(o):
    return 48 <= o <= 57


def _isspace(o):
    return o == 32 or (9 <= o <= 13) or (28 <= o <= 31)


_CATS = {
    C.CATEGORY_DIGIT: _isdigit,
    C.CATEGORY_NOT_DIGIT: lambda o: not _isdigit(o),
    C.CATEGORY_WORD: _isword,
    C.CATEGORY_NOT_WORD: lambda o: not _isword(o),
    C.CATEGORY_SPACE: _isspace,
    C.CATEGORY_NOT_SPACE: lambda o: not _isspace(o),
}

_SUPPORTED = {
    C.LITERAL, C.NOT_LITERAL, C.ANY, C.IN, C.BRANCH, C.SUBPATTERN, C.MAX_REPEAT, C.MIN_REPEAT, C.AT,
    C.ASSERT, C.ASSERT_NOT,
}
for _n in ("POSSESSIVE_REPEAT", "ATOMIC_GROUP"):
    if hasattr(C, _n):
        _SUPPORTED.add(getattr(C, _n))


class _Match:
    def __init__(self, s, start, end):
        self._s, self._start, self._end = s, start, end

    def group(self, *a):
        return self._s[self._start : self._end]

    def end(self):
        return self._end

    def start(self):
        return self._start


class PyRegex:
    def __init__(self, pattern, flags=0):
        self.pattern = pattern
        self.flags = flags
        self.tree = sre_parse.parse(pattern, flags)
        self.flags = self.tree.state.flags | flags
        self.icase = bool(self.flags & re.IGNORECASE)
        self.multiline = bool(self.flags & re.MULTILINE)
        self.dotall = bool(self.flags & re.DOTALL)
        self._check(self.tree)

    def _check(self, sub):
        for op, av in sub:
            if op not in _SUPPORTED:
                raise NotImplementedError("regex opcode %s in /%s/" % (op, self.pattern))
            if op is C.BRANCH:
                for alt in av[1]:
                    self._check(alt)
            elif op is C.SUBPATTERN:
                if av[1] or av[2]:
                    raise NotImplementedError("inline flags in /%s/" % self.pattern)
                self._check(av[3])
            elif op in (C.MAX_REPEAT, C.MIN_REPEAT) or (hasattr(C, "POSSESSIVE_REPEAT") and op is C.POSSESSIVE_REPEAT):
                self._check(av[2])
            elif hasattr(C, "ATOMIC_GROUP") and op is C.ATOMIC_GROUP:
                self._check(av)
            elif op in (C.ASSERT, C.ASSERT_NOT):
                if av[0] != 1:
                    # look-behind: only fixed single-width supported
                    w = av[1].getwidth()
                    if w[0] != w[1]:
                        raise NotImplementedError("variable-width look-behind")
                self._check(av[1])
            elif op is C.IN:
                for o2, a2 in av:
                    if o2 not in (C.LITERAL, C.RANGE, C.CATEGORY, C.NEGATE):
                        raise NotImplementedError("set item %s" % o2)
                    if o2 is C.CATEGORY and a2 not in _CATS:
                        raise NotImplementedError("category %s" % a2)
            elif op is C.AT:
                if av not in (C.AT_BEGINNING, C.AT_BEGINNING_STRING, C.AT_END, C.AT_END_STRING, C.AT_BOUNDARY,
                              C.AT_NON_BOUNDARY, C.AT_BEGINNING_LINE, C.AT_END_LINE):
                    raise NotImplementedError("anchor %s" % av)

    # ------------------------------------------------------------------ char tests
    def _lit(self, o, code):
        if o == code:
            return True
        if self.icase:
            if 65 <= code <= 90:
                return o == code + 32
            if 97 <= code <= 122:
                return o == code - 32
        return False

    def _in_raw(self, o, items):
        for op, av in items:
            if op is C.LITERAL:
                if o == av:
                    return True
            elif op is C.RANGE:
                if av[0] <= o <= av[1]:
                    return True
            elif op is C.CATEGORY:
                if _CATS[av](o):
                    return True
        return False

    def _in(self, o, av):
        neg = bool(av) and av[0][0] is C.NEGATE
        items = av[1:] if neg else av
        r = self._in_raw(o, items)
        if not r and self.icase:
            if 65 <= o <= 90:
                r = self._in_raw(o + 32, items)
            elif 97 <= o <= 122:
                r = self._in_raw(o - 32, items)
        return (not r) if neg else r

    # ------------------------------------------------------------------ matcher (continuation passing)
    def match(self, s, pos=0):
        n = len(s)
        if pos > n:
            return None
        end = self._m(list(self.tree), 0, s, n, pos, lambda p: p)
        if end is None:
            return None
        return _Match(s, pos, end)

    def _m(self, seq, k, s, n, pos, cont):
        """Match seq[k:] at pos, then cont(pos'); returns the end position or None."""
        if k == len(seq):
            return cont(pos)
        op, av = seq[k]
        nxt = lambda p: self._m(seq, k + 1, s, n, p, cont)  # noqa
        if op is C.LITERAL:
            if pos < n and self._lit(ord(s[pos]), av):
                return nxt(pos + 1)
            return None
        if op is C.NOT_LITERAL:
            if pos < n and not self._lit(ord(s[pos]), av):
                return nxt(pos + 1)
            return None
        if op is C.ANY:
            if pos < n and (self.dotall or ord(s[pos]) != 10):
                return nxt(pos + 1)
            return None
        if op is C.IN:
            if pos < n and self._in(ord(s[pos]), av):
                return nxt(pos + 1)
            return None
        if op is C.BRANCH:
            for alt in av[1]:
                r = self._m(list(alt), 0, s, n, pos, nxt)
                if r is not None:
                    return r
            return None
        if op is C.SUBPATTERN:
            return self._m(list(av[3]), 0, s, n, pos, nxt)
        if op is C.AT:
            if self._at(av, s, n, pos):
                return nxt(pos)
            return None
        if op in (C.ASSERT, C.ASSERT_NOT):
            direction, sub = av
            if direction == 1:
                r = self._m(list(sub), 0, s, n, pos, lambda p: p)
            else:
                w = sub.getwidth()[0]
                r = None
                if pos - w >= 0:
                    r = self._m(list(sub), 0, s, n, pos - w, lambda p: p if p == pos else None)
            ok = r is not None
            if ok == (op is C.ASSERT):
                return nxt(pos)
            return None
        if op is C.MAX_REPEAT:
            lo, hi, sub = av
            return self._rep_max(list(sub), lo, hi, 0, s, n, pos, nxt)
        if op is C.MIN_REPEAT:
            lo, hi, sub = av
            return self._rep_min(list(sub), lo, hi, 0, s, n, pos, nxt)
        if hasattr(C, "POSSESSIVE_REPEAT") and op is C.POSSESSIVE_REPEAT:
            lo, hi, sub = av
            p = self._rep_max(list(sub), lo, hi, 0, s, n, pos, lambda q: q)
            if p is None:
                return None
            return nxt(p)
        if hasattr(C, "ATOMIC_GROUP") and op is C.ATOMIC_GROUP:
            p = self._m(list(av), 0, s, n, pos, lambda q: q)
            if p is None:
                return None
            return nxt(p)
        raise NotImplementedError(op)

    def _rep_max(self, sub, lo, hi, count, s, n, pos, cont):
        if count < hi:
            def more(p):
                if p == pos and count >= lo:
                    return None  # empty iteration: stop (as sre does)
                return self._rep_max(sub, lo, hi, count + 1, s, n, p, cont)

            r = self._m(sub, 0, s, n, pos, more)
            if r is not None:
                return r
        if count >= lo:
            return cont(pos)
        return None

    def _rep_min(self, sub, lo, hi, count, s, n, pos, cont):
        if count >= lo:
            r = cont(pos)
            if r is not None:
                return r
        if count < hi:
            def more(p):
                if p == pos and count >= lo:
                    return None
                return self._rep_min(sub, lo, hi, count + 1, s, n, p, cont)

            return self._m(sub, 0, s, n, pos, more)
        return None

    def _at(self, av, s, n, pos):
        if av is C.AT_BEGINNING and self.multiline:
            av = C.AT_BEGINNING_LINE
        if av is C.AT_END and self.multiline:
            av = C.AT_END_LINE
        if av in (C.AT_BEGINNING_STRING,):
            return pos == 0
        if av is C.AT_BEGINNING:
            return pos == 0
        if av is C.AT_BEGINNING_LINE:
            return pos == 0 or ord(s[pos - 1]) == 10
        if av is C.AT_END_STRING:
            return pos == n
        if av is C.AT_END:
            return pos == n or (pos == n - 1 and ord(s[pos]) == 10)
        if av is C.AT_END_LINE:
            return pos == n or ord(s[pos]) == 10
        before = pos > 0 and _isword(ord(s[pos - 1]))
        after = pos < n and _isword(ord(s[pos]))
        if av is C.AT_BOUNDARY:
            return before != after
        if av is C.AT_NON_BOUNDARY:
            return before == after
        raise NotImplementedError(av)


def validate(pattern, flags, alphabet, maxlen):
    """Exhaustive comparison with the C engine on all strings over `alphabet` up to `maxlen`, all positions."""
    import itertools

    real = re.compile(pattern, flags)
    mine = PyRegex(pattern, flags)
    cnt = 0
    for L in range(maxlen + 1):
        for cs in itertools.product(alphabet, repeat=L):
            s = "".join(cs)
            for pos in range(L + 1):
                a = real.match(s, pos)
                b = mine.match(s, pos)
                cnt += 1
                if (a is None) != (b is None) or (a is not None and a.end() != b.end()):
                    raise AssertionError(
                        "regex model disagrees with re on /%s/ flags=%r s=%r pos=%d: re=%r model=%r"
                        % (pattern, flags, s, pos, a and a.end(), b and b.end())
                    )
    return cnt


def install(grammar, alphabet=None, maxlen=0):
    """Replace the compiled pattern of every RegExRecognizer of `grammar` by the model (and validate it
    natively first when an alphabet is given).  Returns the list of patterns."""
    from parglare.grammar import RegExRecognizer

    pats = []
    for t in grammar.terminals.values():
        r = t.recognizer
        if isinstance(r, RegExRecognizer) and not isinstance(r.regex, PyRegex):
            if alphabet is not None:
                validate(r._regex, r.re_flags, alphabet, maxlen)
            r.regex = PyRegex(r._regex, r.re_flags)
            pats.append(r._regex)
    return pats
