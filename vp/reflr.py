"""Textbook LR constructions from plain grammar data (GSpec): nullable / FIRST / FOLLOW, canonical LR(1)
item sets and automaton, LALR(1) look-aheads as the union over canonical states with the same LR(0) core.
Independent of parglare's tables code."""
from collections import OrderedDict

STOP = "STOP"
AUG = "S'"


class RefLR:
    def __init__(self, spec, start=None):
        self.spec = spec
        self.start = start or spec.start
        # production 0 is the augmented one
        self.prods = [(AUG, (self.start, STOP))] + list(spec.prods)
        self.nonterms = [AUG] + list(spec.nonterms)
        self.terms = list(spec.terms) + [STOP]
        self.by_lhs = {}
        for i, (l, r) in enumerate(self.prods):
            self.by_lhs.setdefault(l, []).append(i)
        self.nullable = set(spec.nullable)
        self._first()
        self._follow()
        self._canonical()

    # ------------------------------------------------------------------ FIRST / FOLLOW
    def _first(self):
        first = {t: {t} for t in self.terms}
        for n in self.nonterms:
            first[n] = set()
        ch = True
        while ch:
            ch = False
            for l, r in self.prods:
                for s in r:
                    add = first[s] - first[l]
                    if add:
                        first[l] |= add
                        ch = True
                    if s not in self.nullable:
                        break
        self.first = first

    def first_of_seq(self, seq, la):
        out = set()
        for s in seq:
            out |= self.first[s]
            if s not in self.nullable:
                return out
        if la is not None:
            out.add(la)
        return out

    def _follow(self):
        follow = {n: set() for n in self.nonterms}
        ch = True
        while ch:
            ch = False
            for l, r in self.prods:
                for k, s in enumerate(r):
                    if s in follow:
                        rest = r[k + 1 :]
                        add = set()
                        allnull = True
                        for x in rest:
                            add |= self.first[x]
                            if x not in self.nullable:
                                allnull = False
                                break
                        if allnull:
                            add |= follow[l]
                        if add - follow[s]:
                            follow[s] |= add
                            ch = True
        self.follow = follow

    # ------------------------------------------------------------------ canonical LR(1)
    def closure(self, items):
        items = set(items)
        todo = list(items)
        while todo:
            p, d, la = todo.pop()
            r = self.prods[p][1]
            if d < len(r) and r[d] in self.by_lhs:
                for b in self.first_of_seq(r[d + 1 :], la):
                    for q in self.by_lhs[r[d]]:
                        it = (q, 0, b)
                        if it not in items:
                            items.add(it)
                            todo.append(it)
        return frozenset(items)

    def _canonical(self):
        start = self.closure({(0, 0, None)})
        self.states = [start]
        index = {start: 0}
        self.trans = {}  # (state, symbol) -> state
        k = 0
        while k < len(self.states):
            I = self.states[k]
            by_sym = OrderedDict()
            for p, d, la in sorted(I, key=lambda x: (x[0], x[1], str(x[2]))):
                r = self.prods[p][1]
                if d < len(r) and r[d] != STOP:
                    by_sym.setdefault(r[d], set()).add((p, d + 1, la))
            for X, kern in by_sym.items():
                J = self.closure(kern)
                if J not in index:
                    index[J] = len(self.states)
                    self.states.append(J)
                self.trans[(k, X)] = index[J]
            k += 1
        # actions: state -> terminal -> set of ('s',) | ('a',) | ('r', prod)
        self.actions = []
        for k, I in enumerate(self.states):
            acts = {}
            for p, d, la in I:
                r = self.prods[p][1]
                if d < len(r):
                    if r[d] == STOP:
                        acts.setdefault(STOP, set()).add(("a",))
                    elif r[d] in self.spec.terms:
                        acts.setdefault(r[d], set()).add(("s",))
                elif p != 0:
                    acts.setdefault(la, set()).add(("r", p))
            self.actions.append(acts)
        # LR(0) cores and LALR look-aheads
        self.core_of = [frozenset((p, d) for p, d, _ in I) for I in self.states]
        self.lalr_la = {}  # (core, prod) -> set of look-aheads for completed item prod in core
        self.lalr_actions = {}  # core -> terminal -> set of actions
        for k, I in enumerate(self.states):
            c = self.core_of[k]
            for t, aset in self.actions[k].items():
                self.lalr_actions.setdefault(c, {}).setdefault(t, set()).update(aset)
            for p, d, la in I:
                if d == len(self.prods[p][1]) and p != 0:
                    self.lalr_la.setdefault((c, p), set()).add(la)

    def kernel_core(self, core):
        return frozenset((p, d) for p, d in core if d > 0 or p == 0)

    def is_lalr1(self):
        return all(len(a) <= 1 for acts in self.lalr_actions.values() for a in acts.values())

    def is_lr1(self):
        return all(len(a) <= 1 for acts in self.actions for a in acts.values())

    def is_slr1(self):
        # SLR: LR(0) automaton with FOLLOW look-aheads
        for c, acts in self.lalr_actions.items():
            cell = {}
            for p, d in c:
                r = self.prods[p][1]
                if d < len(r):
                    if r[d] == STOP:
                        cell.setdefault(STOP, set()).add(("a",))
                    elif r[d] in self.spec.terms:
                        cell.setdefault(r[d], set()).add(("s",))
                elif p != 0:
                    for t in self.follow[self.prods[p][0]]:
                        cell.setdefault(t, set()).add(("r", p))
            if any(len(a) > 1 for a in cell.values()):
                return False
        return True
