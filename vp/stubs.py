"""Harness-side adaptations needed to run parglare under the symbolic engine.

None of these touches /repo; each is listed in the evidence files under `stubs`.
"""
import parglare
import parglare.common
import parglare.exceptions
import parglare.glr
import parglare.grammar
import parglare.parser
import parglare.tables
import parglare.trees

STUBS_DOC = {
    "realize_atomic": "parglare classes are marked __ch_deep_realize__-atomic so that formatting them "
    "does not deep-copy them (Production/GrammarSymbol.__getattr__ recurse on blank copies)",
    "get_context": "parglare.exceptions.get_context (error message rendering) returns None; "
    "rendering is exercised for real only by C10",
    "warm_grammar_parser": "parglare.grammar.get_grammar_parser() is built before tracing starts",
}


def mark_atomic():
    mods = [
        parglare.grammar,
        parglare.parser,
        parglare.glr,
        parglare.tables,
        parglare.trees,
        parglare.common,
        parglare.exceptions,
    ]
    for m in mods:
        for name in dir(m):
            obj = getattr(m, name)
            if isinstance(obj, type) and getattr(obj, "__module__", "").startswith("parglare"):
                try:
                    obj.__ch_deep_realize__ = lambda self, memo: self
                except (TypeError, AttributeError):
                    pass


_orig_get_context = parglare.exceptions.get_context


def stub_get_context(on=True):
    if on:
        parglare.exceptions.get_context = lambda input, location, message: None
    else:
        parglare.exceptions.get_context = _orig_get_context


def warm():
    parglare.grammar.get_grammar_parser(False, False)


def prepare(render_errors=False):
    """Standard preparation for a harness process."""
    warm()
    mark_atomic()
    stub_get_context(not render_errors)
