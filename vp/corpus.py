"""Program families (the stated bound on "programs").  Deterministic; VERIF_SEED only rotates
which representative of each feature stratum is taken by stratified selections."""
import itertools
import random
from functools import lru_cache

from .gspec import GSpec, parse_short

# ------------------------------------------------------------------ GF-shapes (curated skeletons)
SHAPES = [
    ("leftrec", "S: S a | b;"),
    ("rightrec", "S: a S | b;"),
    ("midrec", "S: a S b | EMPTY;"),
    ("ambig-binop", "S: S a S | b;"),
    ("ambig-concat", "S: S S | a;"),
    ("ambig-concat-null", "S: S S | a | EMPTY;"),
    ("cyclic-unit", "S: A | a; A: S | b;"),
    ("prop-c03", "S: A S | b; A: S | a;"),
    ("prop-c05", "S: a | a A; A: S S a | a;"),
    ("hidden-left", "S: A S a | b; A: EMPTY | a;"),
    ("hidden-right", "S: a S A | b; A: EMPTY | a;"),
    ("known-c02", "S: EMPTY | A a; A: S S;"),
    ("nullable-chain", "S: A B; A: EMPTY | a; B: EMPTY | b;"),
    ("nullable-start", "S: A b; A: a | EMPTY;"),
    ("nullable-mid", "S: a A b; A: a | EMPTY;"),
    ("nullable-end", "S: a A; A: b | EMPTY;"),
    ("two-nullables", "S: A A b; A: a | EMPTY;"),
    ("lr2", "S: A a b | B a c; A: a; B: a;"),
    ("lr1-not-lalr", "S: a A a | b A b | a B b | b B a; A: c; B: c;"),
    ("dangling-else", "S: i S | i S e S | x;"),
    ("lex-a-aa", "S: S T | T; T: a | aa;"),
    ("lex-a-ab-b", "S: S T | T; T: a | ab | b;"),
    ("lex-prefix", "S: ab | a B; B: b b | b;"),
    ("expr", "S: S p T | T; T: T m F | F; F: l S r | n;"),
    ("paren", "S: l S r S | EMPTY;"),
    ("list-sep", "S: S c a | a;"),
    ("opt-list", "S: L; L: L a | EMPTY;"),
    ("unit-chain", "S: A; A: B; B: a | b B;"),
    ("rr-conflict", "S: A a | B a; A: b; B: b;"),
    ("palindrome", "S: a S a | b S b | a | b | EMPTY;"),
    ("empty-only", "S: A; A: EMPTY;"),
    ("g7", "S: a A d | b B d | a B e | b A e; A: c; B: c;"),
    ("right-nullable", "S: a S A | EMPTY; A: EMPTY;"),
    ("bounded-amb", "S: A | B; A: a; B: a;"),
    ("reduce-many-empty", "S: A B C a; A: EMPTY; B: EMPTY; C: EMPTY | a;"),
    ("hidden-left-2", "S: A B S a | b; A: EMPTY; B: EMPTY | b;"),
    ("cyclic-null", "S: S S | A; A: EMPTY | a;"),
    ("deep-unit-cycle", "S: A; A: B | a; B: S | b;"),
    ("g8", "S: x | B S b | A S b; B: A A; A: EMPTY;"),
    ("first-empty", "S: A S | b; A: a | EMPTY;"),
    ("first-empty-2", "X: Y S c; S: A b; A: a | EMPTY; Y: y;"),
    ("lex-alt", "S: A | B | B C; A: a; B: aa; C: b;"),
    ("nullable-rhs3", "S: S a a | A A | A S b; A: EMPTY;"),
    ("nullable-tails", "S: P A B | P A C; P: P a | a; A: A a | a; B: EMPTY; C: EMPTY;"),
    ("glr-revisit", "S: b S S | b a | EMPTY;"),
    ("glr-cyclic-nested", "S: S B A | EMPTY | B B a; A: a; B: a A | S S;"),
    ("lalr-late-widening", "S: A | a S S; A: EMPTY;"),
    ("item-then-list", "S: B A; B: b; A: A a | EMPTY;"),
    ("bottom-up-order", "S: B c | d; A: a S; B: b A;"),
    ("glr-update-span", "S: U Y | V Y | V W k; U: u; V: u; Y: X A; X: t; W: t w; A: EMPTY;"),
    ("twice-same-nt", "S: A x A | A x a; A: a;"),
    ("nullable-chain-rec", "S: b S A | A; A: b A | EMPTY;"),
    ("nullable-tail-alt", "S: a B | A S S | EMPTY; A: a; B: EMPTY;"),
    ("unit-chain-empty", "S: p A | q X u; A: W u | W t; W: X; X: Y; Y: EMPTY;"),
]


def shapes():
    return [parse_short(t, name=n) for n, t in SHAPES]


def shape(name):
    for n, t in SHAPES:
        if n == name:
            return parse_short(t, name=n)
    raise KeyError(name)


# ------------------------------------------------------------------ GF-tiny(k)
def _rename_key(prods, nts, ts):
    """Canonical form up to renaming of terminals; alternatives sorted per LHS."""
    best = None
    for perm in itertools.permutations(ts):
        m = dict(zip(ts, perm))
        ps = sorted((l, tuple(m.get(s, s) for s in r)) for l, r in prods)
        key = tuple(ps)
        if best is None or key < best:
            best = key
    return best


@lru_cache(maxsize=None)
def gf_tiny(k, nts=("S", "A"), ts=("a", "b"), maxrhs=2):
    syms = list(nts) + list(ts)
    rhss = [()]
    for L in range(1, maxrhs + 1):
        rhss.extend(itertools.product(syms, repeat=L))
    allp = [(l, r) for l in nts for r in rhss]
    seen = set()
    out = []
    for combo in itertools.combinations(allp, k):
        if not any(l == "S" for l, _ in combo):
            continue
        used_nts = {l for l, _ in combo}
        ok = True
        for l, r in combo:
            for s in r:
                if s in nts and s not in used_nts:
                    ok = False
        if not ok:
            continue
        # drop useless self-productions X: X
        if any(r == (l,) for l, r in combo):
            continue
        key = _rename_key(combo, nts, ts)
        if key in seen:
            continue
        seen.add(key)
        prods = sorted(key, key=lambda p: (list(nts).index(p[0]),))
        # S first, keep canonical alt order
        terms = {t: ("s", t) for t in ts if any(t in r for _, r in prods)}
        if not terms:
            terms = {"a": ("s", "a")}
        try:
            g = GSpec(list(prods), terms)
        except AssertionError:
            continue
        if set(g.nonterms) != g.productive() or set(g.nonterms) != g.reachable():
            continue
        g.name = g.short()
        out.append(g)
    return out


def features(g: GSpec):
    f = []
    if g.nullable:
        f.append("nullable")
    if g.is_cyclic():
        f.append("cyclic")
    lrec = any(r and r[0] == l for l, r in g.prods)
    rrec = any(r and r[-1] == l for l, r in g.prods)
    if lrec:
        f.append("lrec")
    if rrec:
        f.append("rrec")
    hidden = any(
        any(r[j] == l and j > 0 and all(x in g.nullable for x in r[:j]) for j in range(len(r)))
        for l, r in g.prods
    )
    if hidden:
        f.append("hidden-left")
    hiddenr = any(
        any(r[j] == l and j < len(r) - 1 and all(x in g.nullable for x in r[j + 1 :]) for j in range(len(r)))
        for l, r in g.prods
    )
    if hiddenr:
        f.append("hidden-right")
    if len(g.nonterms) > 1:
        f.append("2nt")
    return tuple(f)


def stratified(gs, count, seed=0, must=()):
    """Deterministic feature-stratified subset: round-robin over feature strata."""
    strata = {}
    for g in gs:
        strata.setdefault(features(g), []).append(g)
    rnd = random.Random(seed)
    keys = sorted(strata)
    for k in keys:
        rnd.shuffle(strata[k])
    out = []
    names = set()
    for g in must:
        out.append(g)
        names.add(g.name)
    i = 0
    while len(out) < count and any(strata[k] for k in keys):
        k = keys[i % len(keys)]
        i += 1
        if strata[k]:
            g = strata[k].pop()
            if g.name not in names:
                out.append(g)
                names.add(g.name)
    return out


def tiny4_fixed(count=400):
    """Fixed (seed-independent) stratified subset of GF-tiny(4): part of the stated program bound of thorough tiers."""
    return stratified(gf_tiny(4), count, 0)


def min_sentence_len(g):
    minlen = {t: 1 for t in g.terms}
    for nt in g.nonterms:
        minlen[nt] = 10**6
    ch = True
    while ch:
        ch = False
        for l, r in g.prods:
            v = sum(minlen[s] for s in r)
            if v < minlen[l]:
                minlen[l] = v
                ch = True
    return minlen[g.start]


def tiny3x3_fixed(count=600):
    """Fixed stratified subset of GF-tiny(3) with right-hand sides up to length 3 (41 898 grammars in the family);
    only grammars with a sentence of length <= 3, so that accepting paths exist within the input bound."""
    return stratified([g for g in gf_tiny(3, maxrhs=3) if min_sentence_len(g) <= 3], count, 0)


def random_grammars(count, seed, nts=("S", "A", "B"), ts=("a", "b", "c"), kmin=5, kmax=8):
    """Seeded random productive/reachable grammars with three nonterminals (used by C05 and, as a fixed subset, elsewhere)."""
    rnd = random.Random(seed)
    out = []
    nts, ts = list(nts), list(ts)
    tries = 0
    while len(out) < count and tries < count * 50:
        tries += 1
        k = rnd.randint(kmin, kmax)
        prods = []
        for j in range(k):
            l = "S" if j == 0 else rnd.choice(nts)
            r = tuple(rnd.choice(nts + ts + ts) for _ in range(rnd.choice([0, 1, 1, 2, 2, 3])))
            if (l, r) not in prods and r != (l,):
                prods.append((l, r))
        used = {l for l, _ in prods}
        if any(s in nts and s not in used for _, r in prods for s in r):
            continue
        terms = {t: ("s", t) for t in ts if any(t in r for _, r in prods)} or {"a": ("s", "a")}
        prods.sort(key=lambda p: nts.index(p[0]))
        try:
            g = GSpec(prods, terms)
        except AssertionError:
            continue
        if set(g.nonterms) != g.productive() or set(g.nonterms) != g.reachable():
            continue
        g.name = g.short()
        out.append(g)
    return out


def random3_fixed(count=300):
    """Fixed (seed-independent) set of random grammars with 3 nonterminals, 4-6 productions."""
    return random_grammars(count, 12345, kmin=4, kmax=6)
