"""Runner: executes the cases of one property check in a process pool, replays counterexamples
natively, applies the known-findings file, writes the evidence file and sets the exit code.

Exit codes: 0 = held on everything explored (known findings are printed, not alarms)
            1 = VIOLATION (reproduced natively, not a listed finding)
            3 = harness error (non-reproducing counterexample, failed twin, too much inconclusive)
"""
import argparse
import importlib
import json
import os
import subprocess
import sys
import time
import traceback

VERIF = os.path.dirname(os.path.dirname(os.path.abspath(__file__)))
# Scratch runs (seeded-change trials) may redirect their output so that committed evidence is not clobbered.
EVIDENCE_DIR = os.environ.get("VERIF_EVIDENCE_DIR") or os.path.join(VERIF, "evidence")
REPLAY_DIR = os.environ.get("VERIF_REPLAY_DIR") or os.path.join(VERIF, "replays")
PY = "/verif/.venv/bin/python" if os.path.exists("/verif/.venv/bin/python") else os.path.join(VERIF, ".venv", "bin", "python")
REPLAY_WALL_S = 60


def load_known():
    p = os.path.join(VERIF, "known_findings.json")
    if not os.path.exists(p):
        return []
    with open(p) as f:
        return json.load(f).get("findings", [])


def known_for(pid):
    return [k for k in load_known() if k.get("property") == pid and k.get("status", "open") == "open"]


# ----------------------------------------------------------------------------------- worker side
def _collect_functions(fn, samples):
    """Native re-run of a few witnesses under sys.setprofile: which parglare functions ran."""
    import sys as _sys

    seen = set()

    def prof(frame, event, arg):
        if event == "call":
            co = frame.f_code
            fnm = co.co_filename
            if "/parglare/" in fnm:
                seen.add("%s:%s" % (fnm.split("/parglare/", 1)[1], co.co_qualname))

    for s in samples:
        try:
            _sys.setprofile(prof)
            fn(**s["args"])
        except BaseException:  # noqa
            pass
        finally:
            _sys.setprofile(None)
    return sorted(seen)


def run_case(case):
    """Executed in a fresh process."""
    t0 = time.time()
    out = {"name": case["name"], "params": case["params"], "module": case["module"]}
    try:
        sys.setrecursionlimit(10000)
        mod = importlib.import_module(case["module"])
        if hasattr(mod, "run_case"):
            special = mod.run_case(case["params"])
            if special is not None:
                out.update(special)
                out["wall_s"] = round(time.time() - t0, 2)
                return out
        from . import stubs
        from .symx import explore

        from .symx import Skip

        stubs.prepare(render_errors=bool(case.get("render_errors")))
        try:
            fn = mod.build(case["params"], symbolic=True)
        except Skip as e:
            out["skipped"] = str(e)
            out["wall_s"] = round(time.time() - t0, 2)
            return out
        res = explore(
            fn,
            budget_s=case.get("budget_s", 300),
            per_path_s=case.get("per_path_s", 30),
            hang_wall_s=case.get("hang_wall_s", 60),
            sample_every=case.get("sample_every", 7),
            stop_on_refute=True,
        )
        out["result"] = res.as_dict()
        out["stats"] = dict(getattr(fn, "stats", {}))
        out["expect"] = list(getattr(fn, "expect", []))
        out["stubs"] = list(getattr(fn, "stubs", []))
        # functions executed (native, no tracing) on sampled witnesses
        try:
            stubs.stub_get_context(False)
            fn2 = mod.build(case["params"], symbolic=False)
            out["functions"] = _collect_functions(fn2, res.samples[:4])
        except BaseException as e:  # noqa
            out["functions"] = []
            out["functions_error"] = repr(e)
    except BaseException as e:  # noqa
        out["error"] = "%s: %s\n%s" % (type(e).__name__, e, traceback.format_exc()[-1500:])
    out["wall_s"] = round(time.time() - t0, 2)
    return out


def replay_record(rec):
    """Native replay of a record {module, params, args}.  Returns (failed: bool, detail)."""
    mod = importlib.import_module(rec["module"])
    if hasattr(mod, "replay"):
        return mod.replay(rec)
    from .symx import Pre

    fn = mod.build(rec["params"], symbolic=False)
    try:
        r = fn(**rec["args"])
    except Pre:
        return False, "precondition false for these arguments"
    except Exception as e:
        return True, "exception %s: %s" % (type(e).__name__, e)
    if r is True or r is None:
        return False, "property holds on replay"
    return True, r


# ----------------------------------------------------------------------------------- driver side
def _native_replay(pid, path):
    """Run the replay in a fresh interpreter.  rc 1 = reproduced, 0 = not, 2 = hang."""
    try:
        p = subprocess.run(
            [PY, "-m", "vp.run", pid, "--replay", path],
            cwd=VERIF,
            capture_output=True,
            text=True,
            timeout=REPLAY_WALL_S,
        )
        return p.returncode, (p.stdout + p.stderr)[-2000:]
    except subprocess.TimeoutExpired:
        return 2, "native replay exceeded %ds wall clock" % REPLAY_WALL_S


def run_pool(cases, jobs):
    """One fresh interpreter per case (python -m vp.run --worker <in> <out>), killed at its wall cap."""
    import tempfile

    tmpd = tempfile.mkdtemp(prefix="vpcases-")
    pending = list(enumerate(cases))
    pending.reverse()
    running = {}
    try:
        while pending or running:
            while pending and len(running) < jobs:
                i, c = pending.pop()
                fin = os.path.join(tmpd, "%d.in.json" % i)
                fout = os.path.join(tmpd, "%d.out.json" % i)
                with open(fin, "w") as f:
                    json.dump(c, f)
                env = dict(os.environ)
                env["PYTHONHASHSEED"] = str(c.get("hashseed", i % 7))
                env["PYTHONDONTWRITEBYTECODE"] = "1"
                flog = open(os.path.join(tmpd, "%d.log" % i), "w")
                pr = subprocess.Popen(
                    [PY, "-m", "vp.run", "--worker", fin, fout],
                    cwd=VERIF,
                    env=env,
                    stdout=flog,
                    stderr=subprocess.STDOUT,
                    text=True,
                )
                flog.close()
                running[i] = (pr, c, fout, time.time())
            done = []
            for i, (pr, c, fout, t0) in running.items():
                rc = pr.poll()
                cap = c.get("wall_cap_s", c.get("budget_s", 300) * 2 + 120)
                if rc is None and time.time() - t0 > cap:
                    pr.kill()
                    pr.wait()
                    r = {"name": c["name"], "params": c["params"], "module": c["module"], "error": "worker exceeded wall cap %ds and was killed" % cap}
                    r["_case"] = c
                    done.append(i)
                    yield r
                elif rc is not None:
                    try:
                        with open(os.path.join(tmpd, "%d.log" % i), errors="replace") as fl:
                            outp = fl.read()[-3000:]
                    except OSError:
                        outp = ""
                    if os.path.exists(fout):
                        with open(fout) as f:
                            r = json.load(f)
                    else:
                        r = {"name": c["name"], "params": c["params"], "module": c["module"], "error": "worker died rc=%s: %s" % (rc, outp[-800:])}
                    r["_case"] = c
                    done.append(i)
                    yield r
            for i in done:
                del running[i]
            if not done:
                time.sleep(0.05)
    finally:
        for pr, *_ in running.values():
            pr.kill()
        import shutil

        shutil.rmtree(tmpd, ignore_errors=True)


def finding_matches(k, rec):
    """A known finding matches a record iff its `match` dict is a sub-dict of the flattened record."""
    flat = {}
    flat.update(rec.get("params", {}))
    flat.update({"arg_" + a: v for a, v in rec.get("args", {}).items()})
    flat["norm"] = rec.get("norm")
    for key, val in k.get("match", {}).items():
        if flat.get(key) != val:
            return False
    return True


def main(argv=None):
    argv = sys.argv[1:] if argv is None else argv
    if argv and argv[0] == "--worker":
        with open(argv[1]) as f:
            case = json.load(f)
        r = run_case(case)
        with open(argv[2], "w") as f:
            json.dump(r, f, default=repr)
        return 0
    ap = argparse.ArgumentParser()
    ap.add_argument("pid")
    ap.add_argument("--tier", default=os.environ.get("VERIF_TIER", "quick"))
    ap.add_argument("--replay")
    ap.add_argument("--replay-known")
    ap.add_argument("--jobs", type=int, default=int(os.environ.get("VERIF_JOBS", "0")) or (os.cpu_count() or 4))
    ap.add_argument("--only", help="substring filter on case names (debugging)")
    a = ap.parse_args(argv)
    pid = a.pid.upper()
    seed = int(os.environ.get("VERIF_SEED", "0"))
    mod = importlib.import_module("harness.%s" % pid.lower())

    if a.replay:
        with open(a.replay) as f:
            rec = json.load(f)
        failed, detail = replay_record(rec)
        print("REPLAY %s: %s" % ("FAILS" if failed else "passes", detail))
        return 1 if failed else 0

    if a.replay_known:
        k = [x for x in load_known() if x["id"] == a.replay_known][0]
        if hasattr(mod, "replay_known"):
            still = mod.replay_known(k)
        else:
            from .symx import Pre

            params = dict(k["params"])
            params["no_skip"] = True
            fn = mod.build(params, symbolic=False)
            still = []
            for w in k["inputs"]:
                try:
                    r = fn(w)
                except Pre:
                    continue
                except Exception as e:  # noqa
                    r = "exception %r" % (e,)
                if not (r is True or r is None):
                    still.append(w)
        print("%d of %d listed inputs still fail: %s" % (len(still), len(k["inputs"]), still[:8]))
        return 1 if still else 0

    t0 = time.time()
    cases = mod.cases(a.tier, seed)
    if a.only:
        cases = [c for c in cases if a.only in c["name"]]
    for c in cases:
        c.setdefault("module", mod.__name__)
    known = known_for(pid)
    results = []
    for r in run_pool(cases, a.jobs):
        c = r.pop("_case")
        r["expect_refuted"] = bool(c.get("expect_refuted"))
        results.append(r)
        res = r.get("result") or {}
        print(
            "  case %-60s paths=%-5s conf=%-5s ign=%-4s unk=%-3s ref=%s exh=%s cpu=%ss %s"
            % (
                r["name"][:60],
                res.get("paths"),
                res.get("confirmed"),
                res.get("ignored"),
                res.get("unknown"),
                res.get("refuted"),
                res.get("exhausted"),
                res.get("cpu_s"),
                ("ERROR " + r["error"][:300]) if "error" in r else (r.get("skipped") or ""),
            ),
            flush=True,
        )
    results.sort(key=lambda r: r["name"])

    # ------------------------------------------------------------------ classify
    os.makedirs(os.path.join(REPLAY_DIR, pid), exist_ok=True)
    violations, harness_errors, inconclusive, discharged = [], [], [], 0
    skipped = []
    known_hit = []
    twins_ok = 0
    for r in results:
        res = r.get("result")
        if r.get("skipped"):
            skipped.append("%s: %s" % (r["name"], r["skipped"]))
            continue
        if "error" in r or res is None:
            harness_errors.append("%s: %s" % (r["name"], r.get("error", "no result")))
            continue
        if r["expect_refuted"]:
            if res["refuted"] and res["counterexamples"]:
                rec = {"property": pid, "module": r["module"], "params": r["params"], "args": res["counterexamples"][0]["args"]}
                path = os.path.join(REPLAY_DIR, pid, "twin-%s.json" % _slug(r["name"]))
                with open(path, "w") as f:
                    json.dump(rec, f, indent=1)
                rc, _ = _native_replay(pid, path)
                if rc == 1:
                    twins_ok += 1
                    discharged += 1
                    continue
                harness_errors.append("refutation twin %s: counterexample does not replay" % r["name"])
            else:
                harness_errors.append("refutation twin %s was not refuted (vacuous harness?)" % r["name"])
            continue
        if res["refuted"]:
            for n, cex in enumerate(res["counterexamples"]):
                rec = {
                    "property": pid,
                    "module": r["module"],
                    "case": r["name"],
                    "params": r["params"],
                    "args": cex["args"],
                    "detail": cex["detail"],
                }
                path = os.path.join(REPLAY_DIR, pid, "%s-%d.json" % (_slug(r["name"]), n))
                with open(path, "w") as f:
                    json.dump(rec, f, indent=1)
                rc, outp = _native_replay(pid, path)
                if rc in (1, 2):
                    violations.append((path, r["name"], cex, outp))
                else:
                    harness_errors.append(
                        "%s: counterexample %s does not reproduce natively (%s)" % (r["name"], cex["args"], outp[-300:])
                    )
            continue
        missing = [k for k in r.get("expect", []) if not r.get("stats", {}).get(k)]
        if res["holds"] and not missing:
            discharged += 1
        else:
            why = []
            if not res["exhausted"]:
                why.append("not exhausted (%s)" % res.get("stopped"))
            if res["unknown"]:
                why.append("%d unknown leaves %s" % (res["unknown"], res.get("unknown_reasons")))
            if not res["confirmed"]:
                why.append("no confirmed leaf")
            if missing:
                why.append("vacuity: witness counters %s are zero" % missing)
            inconclusive.append("%s: %s" % (r["name"], "; ".join(why)))

    # ------------------------------------------------------------------ known findings: replay each
    for k in known:
        try:
            p = subprocess.run([PY, "-m", "vp.run", pid, "--replay-known", k["id"]], cwd=VERIF, capture_output=True, text=True, timeout=REPLAY_WALL_S * 3)
            rck, outp = p.returncode, (p.stdout + p.stderr)
        except subprocess.TimeoutExpired:
            rck, outp = 2, "timeout"
        if rck in (1, 2):
            print("KNOWN-FINDING: property=%s %s [%s]" % (pid, k["what"], outp.strip().splitlines()[-1][:200] if outp.strip() else ""))
            known_hit.append(k["id"])
        else:
            print("note: known finding %s no longer reproduces (%s)" % (k["id"], outp.strip()[-300:]))

    rc = 0
    for path, name, cex, outp in violations:
        print("VIOLATION property=%s replay=%s" % (pid, path))
        print("    case=%s args=%s detail=%s" % (name, json.dumps(cex["args"]), str(cex["detail"])[:500]))
        rc = 1
    for m in skipped:
        print("SKIPPED %s" % m)
    for m in inconclusive:
        print("INCONCLUSIVE %s" % m)
    for m in harness_errors:
        print("HARNESS-ERROR %s" % m)
    if rc == 0 and harness_errors:
        rc = 3
    nreal = len([r for r in results if not r.get('skipped')])
    if rc == 0 and nreal and len(inconclusive) * 4 > nreal:
        print("HARNESS-ERROR more than a quarter of the cases are inconclusive")
        rc = 3

    write_evidence(mod, pid, a.tier, seed, [r for r in results if not r.get('skipped')], skipped, discharged, violations, inconclusive, harness_errors, known_hit, twins_ok, time.time() - t0)
    print(
        "%s tier=%s cases=%d discharged=%d violations=%d inconclusive=%d harness_errors=%d known=%d wall=%.1fs"
        % (pid, a.tier, len(results), discharged, len(violations), len(inconclusive), len(harness_errors), len(known_hit), time.time() - t0)
    )
    return rc


def _slug(s):
    import hashlib
    import re

    base = re.sub(r"[^A-Za-z0-9]+", "_", s)[:50].strip("_")
    return "%s-%s" % (base, hashlib.sha1(s.encode()).hexdigest()[:8])


def write_evidence(mod, pid, tier, seed, results, skipped, discharged, violations, inconclusive, harness_errors, known_hit, twins_ok, wall):
    import z3

    tot = lambda k: sum((r.get("result") or {}).get(k, 0) or 0 for r in results)  # noqa
    samples = []
    for r in results:
        res = r.get("result") or {}
        best = sorted(res.get("samples") or [], key=lambda x: -(x.get("choices") or 0))[:2]  # the deepest witnesses of the case
        for s in best:
            samples.append({"case": r["name"], "args": s["args"], "verdict": s["verdict"], "branch_decisions": s.get("choices")})
        if len(samples) >= 24:
            break
    if not samples:
        samples = [{"case": r["name"], "note": r.get("note", "no symbolic witness recorded")} for r in results[:3]]
    functions = sorted({f for r in results for f in r.get("functions", [])})
    info = getattr(mod, "INFO", {})
    cov = {
        "evaluations": int(tot("paths")) + int(sum(r.get("extra_evaluations", 0) for r in results)),
        "distinct_nontrivial": int(tot("nontrivial")) + int(sum(r.get("extra_nontrivial", 0) for r in results)),
        "rule": info.get(
            "rule",
            "one evaluation = one explored execution path (a class of inputs sharing a path condition); "
            "distinct_nontrivial = confirmed leaves whose path made at least one solver-decided branch on a "
            "symbolic variable and reached the assertion (paths of the search tree are pairwise distinct by construction)",
        ),
        "samples": samples,
        "obligations": len(results),
        "discharged": discharged,
        "exhaustive": discharged == len(results) and not inconclusive and not harness_errors,
        "explanation": info.get("explanation", ""),
        "functions_encoded": functions,
        "bounds": info.get("bounds", {}).get(tier, info.get("bounds", {})),
        "outside": info.get("outside", ""),
        "solver": {
            "name": "z3 (via CrossHair 0.0.110 path engine)" if not info.get("solver") else info["solver"],
            "version": z3.get_version_string(),
            "check_calls": int(tot("solver_calls")),
            "solver_s": round(float(tot("solver_s")), 2),
            "unknown_answers": int(tot("solver_unknown")),
        },
        "leaves": {
            "confirmed": int(tot("confirmed")),
            "ignored_precondition": int(tot("ignored")),
            "unknown": int(tot("unknown")),
            "refuted": int(tot("refuted")),
        },
        "cpu_s": round(float(tot("cpu_s")), 1),
        "stubs": sorted({s for r in results for s in r.get("stubs", [])}),
        "refutation_twins_ok": twins_ok,
        "inconclusive": inconclusive,
        "skipped_cases": skipped,
        "harness_errors": harness_errors,
        "known_findings_replayed": known_hit,
        "cases": [
            {
                "name": r["name"],
                "paths": (r.get("result") or {}).get("paths"),
                "confirmed": (r.get("result") or {}).get("confirmed"),
                "exhausted": (r.get("result") or {}).get("exhausted"),
                "stats": r.get("stats"),
                "extra": r.get("extra"),
            }
            for r in results
        ],
    }
    for k, v in (info.get("coverage_extra") or {}).items():
        cov[k] = v
    for r in results:
        for k, v in (r.get("coverage_extra") or {}).items():
            cov[k] = cov.get(k, 0) + v if isinstance(v, (int, float)) else v
    ev = {
        "property_id": pid,
        "tier": tier,
        "seed": seed,
        "level": info.get("level", "other"),
        "coverage": cov,
        "assumptions": info.get("assumptions", []),
        "wall_s": round(wall, 1),
        "violations": len(violations),
    }
    os.makedirs(EVIDENCE_DIR, exist_ok=True)
    with open(os.path.join(EVIDENCE_DIR, "%s.json" % pid), "w") as f:
        json.dump(ev, f, indent=1, default=repr)


if __name__ == "__main__":
    sys.path.insert(0, VERIF)
    sys.exit(main())
