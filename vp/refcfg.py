"""Reference recogniser / derivation enumerator, independent of parglare's algorithms.

Scannerless: a terminal T spans (i, e) iff i is a position reached after skipping layout and the
matcher of T (literal / regex model / custom) matches w at i ending at e > i.  After a token the next
position is skip(e).  A sentence is a derivation of the start symbol from skip(0) to len(w).

Works on concrete and on symbolic `w` (all positions are concrete ints; only character tests touch w).
"""
from typing import Dict, List, Optional, Tuple


class Cyclic(Exception):
    pass


class TooMany(Exception):
    pass


class Lex:
    """Terminal matching with memo.  `n` must be a concrete int (length of w)."""

    def __init__(self, spec, w, n, matchers=None, layout=None):
        self.spec = spec
        self.w = w
        self.n = n
        self.memo: Dict[Tuple[str, int], Optional[int]] = {}
        self.skipmemo: Dict[int, int] = {}
        self.matchers = matchers or {}
        self.layout = layout  # optional callable (w, n, i) -> position after layout

    def skip(self, i):
        r = self.skipmemo.get(i)
        if r is None:
            if self.layout is not None:
                r = self.layout(self.w, self.n, i)
            else:
                r = i
                ws = self.spec.ws
                if ws:
                    while r < self.n and self.w[r] in ws:
                        r += 1
            self.skipmemo[i] = r
        return r

    def match(self, t, i):
        key = (t, i)
        if key in self.memo:
            return self.memo[key]
        kind, val = self.spec.terms[t]
        e = None
        if i < self.n:
            if t in self.matchers:
                e = self.matchers[t](self.w, self.n, i)
            elif kind == "s":
                L = len(val)
                if i + L <= self.n and self.w[i : i + L] == val:
                    e = i + L
            elif kind == "si":  # case-insensitive literal
                L = len(val)
                if i + L <= self.n and self.w[i : i + L].lower() == val.lower():
                    e = i + L
            else:
                raise NotImplementedError("no matcher for terminal %s" % t)
            if e is not None and e <= i:
                e = None
        self.memo[key] = e
        return e


class Earley:
    """Earley recogniser over positions; stops reading input where no item survives."""

    def __init__(self, spec, lex: Lex):
        self.spec = spec
        self.lex = lex
        self.sets: Dict[int, list] = {}
        self.setidx: Dict[int, set] = {}
        self.p0 = lex.skip(0)
        self.accepted_at = []  # positions k where the start symbol spans (p0, k)
        self._run()

    def _add(self, pos, item):
        s = self.setidx.setdefault(pos, set())
        if item in s:
            return False
        s.add(item)
        self.sets.setdefault(pos, []).append(item)
        return True

    def _run(self):
        spec, lex = self.spec, self.lex
        prods = spec.prods
        for pi in spec.by_lhs[spec.start]:
            self._add(self.p0, (pi, 0, self.p0))
        for pos in range(0, lex.n + 1):
            if pos not in self.sets:
                continue
            items = self.sets[pos]
            k = 0
            while k < len(items):
                pi, dot, org = items[k]
                k += 1
                lhs, rhs = prods[pi]
                if dot < len(rhs):
                    X = rhs[dot]
                    if X in spec.by_lhs:
                        for pj in spec.by_lhs[X]:
                            self._add(pos, (pj, 0, pos))
                        if X in spec.nullable:
                            self._add(pos, (pi, dot + 1, org))
                else:
                    for pj, d, o in list(self.sets.get(org, [])):
                        r2 = prods[pj][1]
                        if d < len(r2) and r2[d] == lhs:
                            self._add(pos, (pj, d + 1, o))
            # scan
            for pi, dot, org in list(items):
                rhs = prods[pi][1]
                if dot < len(rhs) and rhs[dot] in spec.terms:
                    e = lex.match(rhs[dot], pos)
                    if e is not None:
                        self._add(lex.skip(e), (pi, dot + 1, org))
            for pi, dot, org in items:
                if dot == len(prods[pi][1]) and org == self.p0 and prods[pi][0] == spec.start:
                    if pos not in self.accepted_at:
                        self.accepted_at.append(pos)

    # ---------------------------------------------------------------- queries
    @property
    def accepted(self):
        return self.lex.n in self.accepted_at

    @property
    def farthest(self):
        return max(self.sets)

    def expected_at(self, pos):
        out = set()
        for pi, dot, org in self.sets.get(pos, []):
            rhs = self.spec.prods[pi][1]
            if dot < len(rhs) and rhs[dot] in self.spec.terms:
                out.add(rhs[dot])
        return out

    def can_stop_at(self, pos):
        return pos in self.accepted_at


class Chart:
    """Feasibility chart + derivation counting/enumeration over the token edges `lex` already knows.

    Only (terminal, position) pairs present in lex.memo are used, i.e. those an Earley run predicted;
    every terminal occurrence of every derivation of the start symbol from p0 is among them.
    """

    def __init__(self, spec, lex: Lex, p0):
        self.spec = spec
        self.lex = lex
        self.p0 = p0
        self.edges = {}  # (t, i) -> (e, k)
        for (t, i), e in lex.memo.items():
            if e is not None:
                self.edges[(t, i)] = (e, lex.skip(e))
        self.can = set()
        self._fix()
        self._cnt = {}
        self._trees = {}
        self._inprog = set()

    def _sym_ends(self, X, i):
        if X in self.spec.terms:
            ed = self.edges.get((X, i))
            return [ed[1]] if ed else []
        return [k for (Y, a, k) in self.can if Y == X and a == i]

    def _seq_ends(self, rhs, i):
        cur = {i}
        for X in rhs:
            nxt = set()
            for a in cur:
                nxt.update(self._sym_ends(X, a))
            cur = nxt
            if not cur:
                break
        return cur

    def _fix(self):
        positions = sorted({self.p0} | {i for (_, i) in self.edges} | {k for (_, k) in self.edges.values()})
        ch = True
        while ch:
            ch = False
            for lhs, rhs in self.spec.prods:
                for i in positions:
                    for k in self._seq_ends(rhs, i):
                        if (lhs, i, k) not in self.can:
                            self.can.add((lhs, i, k))
                            ch = True

    def _splits(self, rhs, i, k):
        """All ways (m_0=i, m_1, ..., m_len=k) to split rhs over [i,k] feasibly."""
        if not rhs:
            return [()] if i == k else []
        out = []
        X = rhs[0]
        for m in sorted(set(self._sym_ends(X, i))):
            for rest in self._splits(rhs[1:], m, k):
                out.append((m,) + rest)
        return out

    def count(self, X, i, k):
        """Number of derivation trees of X over (i,k); raises Cyclic when infinite."""
        if X in self.spec.terms:
            ed = self.edges.get((X, i))
            return 1 if ed and ed[1] == k else 0
        key = (X, i, k)
        if key in self._cnt:
            return self._cnt[key]
        if key not in self.can:
            return 0
        if key in self._inprog:
            raise Cyclic(key)
        self._inprog.add(key)
        total = 0
        for pi in self.spec.by_lhs[X]:
            rhs = self.spec.prods[pi][1]
            for sp in self._splits(rhs, i, k):
                c = 1
                a = i
                for Y, m in zip(rhs, sp):
                    c *= self.count(Y, a, m)
                    a = m
                total += c
        self._inprog.discard(key)
        self._cnt[key] = total
        return total

    def trees(self, X, i, k):
        """All derivation trees of X over (i,k) (call count() first to bound / detect cycles).

        Tree = ('N', lhs, rhs, children) | ('T', name, start, end)
        """
        if X in self.spec.terms:
            ed = self.edges.get((X, i))
            return [("T", X, i, ed[0])] if ed and ed[1] == k else []
        key = (X, i, k)
        if key in self._trees:
            return self._trees[key]
        out = []
        for pi in self.spec.by_lhs[X]:
            rhs = self.spec.prods[pi][1]
            for sp in self._splits(rhs, i, k):
                partial = [()]
                a = i
                for Y, m in zip(rhs, sp):
                    sub = self.trees(Y, a, m)
                    partial = [p + (s,) for p in partial for s in sub]
                    a = m
                for p in partial:
                    out.append(("N", X, rhs, p))
        self._trees[key] = out
        return out

    def packed(self, X, i, k, acc=None):
        """Set of packed alternatives (lhs, rhs, split boundaries incl. start) reachable from (X,i,k)."""
        if acc is None:
            acc = set()
        todo = [(X, i, k)]
        seen = set()
        while todo:
            key = todo.pop()
            if key in seen or key[0] in self.spec.terms:
                continue
            seen.add(key)
            Y, a, b = key
            for pi in self.spec.by_lhs[Y]:
                rhs = self.spec.prods[pi][1]
                for sp in self._splits(rhs, a, b):
                    acc.add((Y, rhs, (a,) + sp))
                    c = a
                    for Z, m in zip(rhs, sp):
                        todo.append((Z, c, m))
                        c = m
        return acc


def analyse(spec, w, n, matchers=None, layout=None):
    lex = Lex(spec, w, n, matchers, layout)
    ey = Earley(spec, lex)
    return lex, ey


def derivations(spec, lex, ey, end=None, limit=200):
    """Returns ('inf', None) | ('many', count) | ('fin', [trees]) for the start symbol over (p0, end)."""
    end = lex.n if end is None else end
    ch = Chart(spec, lex, ey.p0)
    try:
        c = ch.count(spec.start, ey.p0, end)
    except Cyclic:
        return "inf", None, ch
    if c > limit:
        return "many", c, ch
    return "fin", ch.trees(spec.start, ey.p0, end), ch


# ---------------------------------------------------------------------------------------------
# Independent brute-force check of the recogniser (used by self-validation).
def brute_language(spec, maxlen, slack=6):
    """Set of token-name tuples of length <= maxlen derivable from the start symbol (BFS over
    sentential forms with pruning).  Independent of Earley/Chart."""
    from collections import deque

    # minimal yield length per symbol
    minlen = {t: 1 for t in spec.terms}
    for nt in spec.nonterms:
        minlen[nt] = 10**6
    ch = True
    while ch:
        ch = False
        for l, r in spec.prods:
            v = sum(minlen[s] for s in r)
            if v < minlen[l]:
                minlen[l] = v
                ch = True
    start = (spec.start,)
    seen = {start}
    q = deque([start])
    out = set()
    while q:
        form = q.popleft()
        idx = next((k for k, s in enumerate(form) if s in spec.by_lhs), None)
        if idx is None:
            out.add(form)
            continue
        for pi in spec.by_lhs[form[idx]]:
            nf = form[:idx] + spec.prods[pi][1] + form[idx + 1 :]
            if sum(minlen[s] for s in nf) > maxlen:
                continue
            if len(nf) > maxlen + slack:  # nullable symbols make sentential forms longer than the sentence
                continue
            if nf not in seen:
                seen.add(nf)
                q.append(nf)
    return out
