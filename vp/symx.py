"""SYMX - path-exhaustive symbolic execution of real code on CrossHair's engine (library API).

The harness function is ordinary Python with annotated parameters (str, int, bool, List[int]).
CrossHair creates z3-backed proxies for them; every branch that depends on them is decided by z3
and both sides are explored until the path tree is exhausted.

Leaf classification:
    Pre raised                      -> ignored  (precondition false)
    returns True / None             -> confirmed
    returns anything else / raises  -> refuted  (arguments realised from the solver model)
    UnexploredPath / unknown / cap  -> unknown
Verdict: holds-within-bound iff exhausted and unknown == 0 and refuted == 0.
"""
import inspect
import signal
import time
import traceback
from dataclasses import dataclass, field
from typing import Any, Callable, Dict, List, Optional

import z3

import crosshair.core_and_libs  # noqa: F401  (registers patches)
from crosshair.core import (
    CopyMode,
    ExceptionFilter,
    Patched,
    StateSpaceContext,
    condition_parser,
    deep_realize,
    deepcopyext,
    gen_args,
    realize,
)
from crosshair.core_and_libs import NoTracing, ResumedTracing
from crosshair.options import AnalysisKind
from crosshair.statespace import CallAnalysis, RootNode, StateSpace, VerificationStatus
from crosshair.tracers import COMPOSITE_TRACER
from crosshair.util import IgnoreAttempt, UnexploredPath

__all__ = ["Pre", "Skip", "build_guard", "native", "explore", "Result", "realize", "SOLVER"]


class Pre(Exception):
    """Raised by a harness when its precondition is false on this path."""


class Skip(Exception):
    """Raised by a harness build step: this case cannot be set up (reason in args[0])."""


class build_guard:
    """Wall-clock cap on a native build step (e.g. parser construction): raises Skip on expiry."""

    def __init__(self, seconds, what="build"):
        self.seconds, self.what = seconds, what

    def __enter__(self):
        def on_alarm(signum, frame):
            raise Skip("%s did not finish within %ss" % (self.what, self.seconds))

        self.old = signal.signal(signal.SIGALRM, on_alarm)
        signal.setitimer(signal.ITIMER_REAL, self.seconds)

    def __exit__(self, *a):
        signal.setitimer(signal.ITIMER_REAL, 0)
        signal.signal(signal.SIGALRM, self.old)
        return False


class native:
    """Run a block natively (untraced) inside a harness: for sub-computations in which no symbolic
    value takes part (e.g. parsing concrete strings with a table that is concrete on this path)."""

    def __enter__(self):
        from crosshair.tracers import is_tracing

        self.cm = NoTracing() if is_tracing() else None
        if self.cm:
            self.cm.__enter__()

    def __exit__(self, *a):
        if self.cm:
            return self.cm.__exit__(*a)
        return False


class Hang(BaseException):
    """Raised by the watchdog inside traced code: a path exceeded its wall-clock cap."""


class _SolverStats:
    def __init__(self):
        self.calls = 0
        self.seconds = 0.0
        self.unknown = 0

    def install(self):
        if getattr(z3.Solver, "_vp_wrapped", False):
            return
        orig = z3.Solver.check
        stats = self

        def check(solver, *a, **k):
            t0 = time.perf_counter()
            try:
                r = orig(solver, *a, **k)
            finally:
                stats.seconds += time.perf_counter() - t0
                stats.calls += 1
            if str(r) == "unknown":
                stats.unknown += 1
            return r

        z3.Solver.check = check
        z3.Solver._vp_wrapped = True


SOLVER = _SolverStats()
SOLVER.install()


@dataclass
class Result:
    paths: int = 0
    confirmed: int = 0
    nontrivial: int = 0
    ignored: int = 0
    unknown: int = 0
    refuted: int = 0
    exhausted: bool = False
    cpu_s: float = 0.0
    wall_s: float = 0.0
    solver_calls: int = 0
    solver_s: float = 0.0
    solver_unknown: int = 0
    counterexamples: List[Dict[str, Any]] = field(default_factory=list)
    samples: List[Dict[str, Any]] = field(default_factory=list)
    unknown_reasons: List[str] = field(default_factory=list)
    stopped: Optional[str] = None

    @property
    def holds(self):
        return self.exhausted and self.unknown == 0 and self.refuted == 0 and self.confirmed > 0

    def as_dict(self):
        d = dict(self.__dict__)
        d["holds"] = self.holds
        return d


def _jsonable(x):
    if isinstance(x, (str, int, bool, float)) or x is None:
        return x
    if isinstance(x, (list, tuple)):
        return [_jsonable(i) for i in x]
    if isinstance(x, dict):
        return {str(k): _jsonable(v) for k, v in x.items()}
    return repr(x)


def explore(
    fn: Callable,
    *,
    budget_s: float = 600.0,
    per_path_s: float = 30.0,
    hang_wall_s: float = 60.0,
    max_paths: int = 10**9,
    sample_every: int = 0,
    max_samples: int = 6,
    stop_on_refute: bool = True,
    max_counterexamples: int = 3,
) -> Result:
    """Explore every path of fn over fresh symbolic arguments.  budget_s is CPU seconds."""
    sig = inspect.signature(fn)
    root = RootNode()
    res = Result()
    c0, s0, u0 = SOLVER.calls, SOLVER.seconds, SOLVER.unknown
    cpu0 = time.process_time()
    wall0 = time.time()

    def on_alarm(signum, frame):
        raise Hang()

    # CPU time of this process (ITIMER_PROF), not wall time: a real hang burns CPU, while a slow path on a loaded machine
    # must not be taken for one (a blocked process is ended by the runner's wall cap per case)
    old_handler = signal.signal(signal.SIGPROF, on_alarm)
    try:
        while True:
            now = time.process_time()
            if now - cpu0 > budget_s:
                res.stopped = "budget"
                break
            if res.paths >= max_paths:
                res.stopped = "max_paths"
                break
            res.paths += 1
            space = StateSpace(
                execution_deadline=now + per_path_s,
                model_check_timeout=per_path_s / 2,
                search_root=root,
            )
            status = None
            with condition_parser([AnalysisKind.PEP316]), Patched(), COMPOSITE_TRACER, NoTracing(), StateSpaceContext(
                space
            ):
                pre_args = None
                try:
                    pre_args = gen_args(sig)
                    args = deepcopyext(pre_args, CopyMode.REGULAR, {})
                    ret = None
                    hang = False
                    signal.setitimer(signal.ITIMER_PROF, hang_wall_s)
                    try:
                        with ExceptionFilter() as ef, ResumedTracing():
                            try:
                                ret = fn(*args.args, **args.kwargs)
                            except Pre:
                                raise IgnoreAttempt("pre")
                    except Hang:
                        hang = True
                    finally:
                        signal.setitimer(signal.ITIMER_PROF, 0)
                    if hang:
                        detail = "hang: path exceeded %.0fs CPU" % hang_wall_s
                        failed = True
                    elif ef.ignore and not ef.user_exc:
                        raise IgnoreAttempt("ignored by filter")
                    elif ef.user_exc:
                        exc = ef.user_exc[0]
                        tb = "".join(ef.user_exc[1].format()[-6:])
                        detail = "exception %s: %s\n%s" % (type(exc).__name__, _safe_str(exc), tb)
                        failed = True
                    else:
                        with ResumedTracing():
                            retc = realize(ret) if not isinstance(ret, (bool, type(None))) else ret
                        failed = not (retc is True or retc is None)
                        detail = retc
                    nchoices = len(space.choices_made)
                    if failed:
                        with ResumedTracing():
                            space.detach_path()
                            conc = deep_realize(pre_args)
                        res.refuted += 1
                        res.counterexamples.append(
                            {"args": _jsonable(dict(conc.arguments)), "detail": _jsonable(detail)}
                        )
                        status = VerificationStatus.REFUTED
                    else:
                        res.confirmed += 1
                        if nchoices > 0:
                            res.nontrivial += 1
                        take = len(res.samples) < max_samples and (
                            sample_every <= 1 or res.confirmed % sample_every == 1
                        )
                        if take:
                            with ResumedTracing():
                                space.detach_path()
                                conc = deep_realize(pre_args)
                            res.samples.append(
                                {"args": _jsonable(dict(conc.arguments)), "verdict": "confirmed", "choices": nchoices}
                            )
                        status = VerificationStatus.CONFIRMED
                except IgnoreAttempt:
                    res.ignored += 1
                    status = None
                except UnexploredPath as e:
                    res.unknown += 1
                    if len(res.unknown_reasons) < 5:
                        res.unknown_reasons.append("%s: %s" % (type(e).__name__, _safe_str(e)[:200]))
                    status = VerificationStatus.UNKNOWN
                except Hang:
                    res.unknown += 1
                    res.unknown_reasons.append("hang outside harness body")
                    status = VerificationStatus.UNKNOWN
                _, exhausted = space.bubble_status(CallAnalysis(status))
            if status == VerificationStatus.REFUTED and (
                stop_on_refute or res.refuted >= max_counterexamples
            ):
                res.stopped = "refuted"
                break
            if exhausted:
                res.exhausted = True
                break
    finally:
        signal.setitimer(signal.ITIMER_PROF, 0)
        signal.signal(signal.SIGPROF, old_handler)
    res.cpu_s = round(time.process_time() - cpu0, 3)
    res.wall_s = round(time.time() - wall0, 3)
    res.solver_calls = SOLVER.calls - c0
    res.solver_s = round(SOLVER.seconds - s0, 3)
    res.solver_unknown = SOLVER.unknown - u0
    return res


def _safe_str(e):
    try:
        return str(e)
    except BaseException:  # noqa
        return "<unprintable %s>" % type(e).__name__
