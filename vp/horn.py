"""C05 encoding: relations exported from the table built by the real create_table, joined with the
reference canonical LR(1) automaton in z3's Datalog engine (Fixedpoint).

reach(r,i)  : least fixpoint of synchronous moves from (0,0) on the same grammar symbol
bad_*(r,i)  : the reference offers something state i lacks / i reduces outside the allowed look-ahead
query(reach & bad) : unsat => holds for every viable prefix (unbounded length) of this grammar.
"""
import time

import z3


class Budget(Exception):
    pass


def export_table(table, spec, ref):
    """parglare LRTable -> plain relations (names, ints)."""
    pmap = {}
    for k, (l, r) in enumerate(ref.prods):
        pmap[(l, r)] = k

    def pidx(prod):
        rhs = tuple(s.name for s in list.__iter__(prod.rhs) if s.name != "EMPTY")
        lhs = prod.symbol.name
        if lhs == "S'":
            return 0
        return pmap[(lhs, rhs)]

    states = table.states
    sid = {id(s): k for k, s in enumerate(states)}
    step = {}
    acts = {}
    cores = {}
    for k, s in enumerate(states):
        for sym, target in s.gotos.items():
            step[(k, sym.name)] = sid[id(target)]
        for sym, alist in s.actions.items():
            for a in alist:
                if a.action == 0:  # SHIFT
                    step[(k, sym.name)] = sid[id(a.state)]
                    acts.setdefault((k, sym.name), set()).add(("s",))
                elif a.action == 1:  # REDUCE
                    acts.setdefault((k, sym.name), set()).add(("r", pidx(a.prod)))
                else:
                    acts.setdefault((k, sym.name), set()).add(("a",))
        cores[k] = frozenset((pidx(it.production), it.position) for it in s.items)
    return {"n": len(states), "step": step, "acts": acts, "cores": cores}


def allowed_reduce(ref, kind, core, p):
    if kind == "SLR":
        return ref.follow[ref.prods[p][0]]
    return ref.lalr_la.get((core, p), set())


def encode_and_query(ref, rel, kind, drop_action=None):
    """Returns dict(verdicts per query, solver time).  drop_action: (i, t, a) removed from the
    implementation relation (used by the refutation twin)."""
    t0 = time.perf_counter()
    nR, nI = len(ref.states), rel["n"]
    syms = sorted({X for (_, X) in ref.trans} | {X for (_, X) in rel["step"]})
    symid = {X: k for k, X in enumerate(syms)}
    tas = sorted({(t, a) for acts in ref.actions for t, aset in acts.items() for a in aset}, key=str)
    taid = {ta: k for k, ta in enumerate(tas)}
    bits = max(8, (max(nR, nI, len(syms) + 1, len(tas) + 1)).bit_length() + 1)
    S = z3.BitVecSort(bits)
    B = z3.BoolSort()
    fp = z3.Fixedpoint()
    fp.set(engine="datalog")
    reach = z3.Function("reach", S, S, B)
    stepR = z3.Function("stepR", S, S, S, B)
    stepI = z3.Function("stepI", S, S, S, B)
    nostepI = z3.Function("nostepI", S, S, B)
    actR = z3.Function("actR", S, S, B)
    noactI = z3.Function("noactI", S, S, B)
    badcore = z3.Function("badcore", S, S, B)
    overI = z3.Function("overI", S, B)
    bad_missing = z3.Function("bad_missing", S, S, B)
    bad_core = z3.Function("bad_core", S, S, B)
    bad_over = z3.Function("bad_over", S, S, B)
    for f in (reach, stepR, stepI, nostepI, actR, noactI, badcore, overI, bad_missing, bad_core, bad_over):
        fp.register_relation(f)
    r, i, x, r2, i2, a = [z3.BitVec(n, bits) for n in ("r", "i", "x", "r2", "i2", "a")]
    fp.declare_var(r, i, x, r2, i2, a)
    bv = lambda v: z3.BitVecVal(v, bits)  # noqa

    nfacts = 0
    for (k, X), k2 in ref.trans.items():
        fp.fact(stepR(bv(k), bv(symid[X]), bv(k2)))
        nfacts += 1
    for (k, X), k2 in rel["step"].items():
        fp.fact(stepI(bv(k), bv(symid[X]), bv(k2)))
        nfacts += 1
    for k in range(nI):
        for X in syms:
            if (k, X) not in rel["step"]:
                fp.fact(nostepI(bv(k), bv(symid[X])))
                nfacts += 1
    for k, acts in enumerate(ref.actions):
        for t, aset in acts.items():
            for ac in aset:
                fp.fact(actR(bv(k), bv(taid[(t, ac)])))
                nfacts += 1
    for k in range(nI):
        for (t, ac), idn in taid.items():
            have = ac in rel["acts"].get((k, t), set())
            if drop_action is not None and drop_action == (k, t, ac):
                have = False
            if not have:
                fp.fact(noactI(bv(k), bv(idn)))
                nfacts += 1
    for kr in range(nR):
        for ki in range(nI):
            if ref.core_of[kr] != rel["cores"][ki]:
                fp.fact(badcore(bv(kr), bv(ki)))
                nfacts += 1
    for ki in range(nI):
        core = rel["cores"][ki]
        over = False
        for (k, t), aset in rel["acts"].items():
            if k != ki:
                continue
            for ac in aset:
                if ac[0] == "r" and t not in allowed_reduce(ref, kind, core, ac[1]):
                    over = True
        if over:
            fp.fact(overI(bv(ki)))
            nfacts += 1

    fp.fact(reach(bv(0), bv(0)))
    fp.rule(reach(r2, i2), [reach(r, i), stepR(r, x, r2), stepI(i, x, i2)])
    fp.rule(bad_missing(r, i), [reach(r, i), stepR(r, x, r2), nostepI(i, x)])
    fp.rule(bad_missing(r, i), [reach(r, i), actR(r, a), noactI(i, a)])
    fp.rule(bad_core(r, i), [reach(r, i), badcore(r, i)])
    fp.rule(bad_over(r, i), [reach(r, i), overI(i)])
    out = {"facts": nfacts, "queries": {}}
    qrels = []
    for name, rl in (("missing", bad_missing), ("core", bad_core), ("over", bad_over)):
        q = z3.Function("q_" + name, B)
        fp.register_relation(q)
        fp.rule(q(), [rl(r, i)])
        qrels.append((name, q))
    smt2 = "(set-option :fp.engine datalog)\n" + fp.to_string([]) + "\n" + "".join("(query q_%s)\n" % n for n, _ in qrels)
    for name, q in qrels:
        res = fp.query(q())
        out["queries"][name] = str(res)
    out["second_solver"] = second_opinion(smt2, [n for n, _ in qrels])
    # reachable pairs (for evidence): count via native product walk
    out["solver_s"] = time.perf_counter() - t0
    return out


Z3_OLD = "/usr/bin/z3"


def second_opinion(smt2, names):
    """The same Datalog program and queries, as SMT-LIB2 text, decided by the independent z3 4.8.12 binary.
    Returns {query: verdict} or {"skipped": reason}.  Any `(error` line makes the answer inconclusive."""
    import os
    import subprocess
    import tempfile

    if not os.path.exists(Z3_OLD):
        return {"skipped": "no %s" % Z3_OLD}
    fd, path = tempfile.mkstemp(suffix=".smt2", prefix="vp-c05-")
    try:
        with os.fdopen(fd, "w") as f:
            f.write(smt2)
        p = subprocess.run([Z3_OLD, path], capture_output=True, text=True, timeout=60)
        txt = p.stdout + p.stderr
        if "(error" in txt:
            return {"skipped": "solver error: %s" % txt.strip()[:200]}
        lines = [l.strip() for l in p.stdout.splitlines() if l.strip() in ("sat", "unsat", "unknown")]
        if len(lines) != len(names):
            return {"skipped": "unexpected output: %s" % txt.strip()[:200]}
        return dict(zip(names, lines))
    except Exception as e:  # noqa
        return {"skipped": repr(e)}
    finally:
        try:
            os.remove(path)
        except OSError:
            pass


def native_product(ref, rel, kind):
    """Independent native walk of the product (used to locate a witness after `sat`, for replay, and
    to count the reachable pairs reported in the evidence)."""
    from collections import deque

    seen = {(0, 0): ()}
    q = deque([(0, 0)])
    problems = []
    while q:
        kr, ki = q.popleft()
        path = seen[(kr, ki)]
        if ref.core_of[kr] != rel["cores"][ki]:
            problems.append(("core", path, "state %d has a different item core than the reference state after this prefix" % ki))
        for t, aset in ref.actions[kr].items():
            for ac in aset:
                if ac not in rel["acts"].get((ki, t), set()):
                    problems.append(("missing", path, "after prefix %s the reference offers %s on %s, state %d does not" % (list(path), ac, t, ki)))
        core = rel["cores"][ki]
        for (k, t), aset in rel["acts"].items():
            if k == ki:
                for ac in aset:
                    if ac[0] == "r" and t not in allowed_reduce(ref, kind, core, ac[1]):
                        problems.append(("over", path, "state %d reduces by production %d %r on %s outside the %s look-ahead %s" % (
                            ki, ac[1], ref.prods[ac[1]], t, kind, sorted(map(str, allowed_reduce(ref, kind, core, ac[1]))))))
        for (k, X), k2 in ref.trans.items():
            if k != kr:
                continue
            if (ki, X) not in rel["step"]:
                problems.append(("missing", path, "after prefix %s the reference moves on %s, state %d cannot" % (list(path), X, ki)))
                continue
            nxt = (k2, rel["step"][(ki, X)])
            if nxt not in seen:
                seen[nxt] = path + (X,)
                q.append(nxt)
    return len(seen), problems
