"""Helpers that read parglare's *results* (trees, forests, errors) into plain data."""
import parglare
from parglare.glr import Parent


def rhs_names(prod):
    return tuple(s.name for s in list.__iter__(prod.rhs) if s.name != "EMPTY")


def conv(n):
    """parglare tree node (NodeNonTerm/NodeTerm/Tree/LazyTree) -> reference tree shape."""
    if n.is_term():
        return ("T", n.symbol.name, n.start_position, n.end_position)
    p = n.production
    return ("N", p.symbol.name, rhs_names(p), tuple(conv(c) for c in n))


def strip_pos(t):
    if t[0] == "T":
        return ("T", t[1])
    return ("N", t[1], t[2], tuple(strip_pos(c) for c in t[3]))


def leaves(t, out=None):
    if out is None:
        out = []
    if t[0] == "T":
        out.append(t)
    else:
        for c in t[3]:
            leaves(c, out)
    return out


def forest_trees(forest, limit):
    n = len(forest)
    if n > limit:
        return None
    return [conv(forest[i]) for i in range(n)]


def sppf_nodes(forest, cap=5000):
    """All (Parent, possibility) pairs reachable from forest.result."""
    seen = set()
    out = []
    todo = [forest.result]
    while todo:
        par = todo.pop()
        if id(par) in seen:
            continue
        seen.add(id(par))
        if len(seen) > cap:
            raise RuntimeError("sppf too large")
        for poss in par.possibilities:
            out.append((par, poss))
            if poss.is_nonterm():
                for c in poss.children:
                    if isinstance(c, Parent):
                        todo.append(c)
    return out


def check_tree(spec, t, w, n, lex, root=True, end=None):
    """Whole-tree validity of a reference-shaped tree against GSpec `spec` and input w.

    Returns None if valid else a reason string.
    """
    prodset = set(spec.prods)

    def rec(x):
        if x[0] == "T":
            _, name, s, e = x
            if name not in spec.terms:
                return "unknown terminal %r" % (name,)
            if not (isinstance(s, int) and isinstance(e, int) and 0 <= s < e <= n):
                return "bad terminal span %r" % (x,)
            if lex.match(name, s) != e:
                return "terminal %s does not match input at %d..%d" % (name, s, e)
            return None
        _, lhs, rhs, ch = x
        if (lhs, rhs) not in prodset:
            return "no production %s -> %s" % (lhs, " ".join(rhs))
        if len(ch) != len(rhs):
            return "children/rhs length mismatch at %s" % lhs
        for c, sym in zip(ch, rhs):
            if c[1] != sym:
                return "child symbol %s where %s expected" % (c[1], sym)
            r = rec(c)
            if r:
                return r
        return None

    r = rec(t)
    if r:
        return r
    if root:
        if t[1] != spec.start:
            return "root is %s, not the start symbol" % t[1]
        pos = lex.skip(0)
        for lf in leaves(t):
            if lf[2] != pos:
                return "leaf %r does not start at %d (tokens not contiguous modulo layout)" % (lf, pos)
            pos = lex.skip(lf[3])
        if end is not None and pos != end:
            return "leaves end at %d, expected %d" % (pos, end)
    return None
