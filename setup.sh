#!/bin/bash
# Offline set-up of the verification overlay environment.
#  - /verif/.venv : a venv created from /venv's interpreter (python 3.12, the interpreter the
#    repository's own test-suite uses) with crosshair-tool + z3-solver installed from the
#    offline wheelhouse, and a .pth file that makes /venv's site-packages and /repo importable.
# parglare itself is imported from /repo (current working tree); nothing of it is copied.
set -euo pipefail
cd "$(dirname "$0")"
VENV=/verif/.venv
WHEELS=/opt/veriftools/wheels
if [ ! -x "$VENV/bin/python" ] || ! "$VENV/bin/python" -c "import crosshair, z3" 2>/dev/null; then
    rm -rf "$VENV"
    /venv/bin/python -m venv "$VENV"
    SP=$("$VENV/bin/python" -c "import sysconfig; print(sysconfig.get_paths()['purelib'])")
    PIP_NO_INDEX=1 "$VENV/bin/pip" install --quiet --no-index --find-links "$WHEELS" crosshair-tool z3-solver
    printf '/venv/lib/python3.12/site-packages\n/repo\n' > "$SP/_overlay.pth"
fi
"$VENV/bin/python" - <<'EOF'
import crosshair, z3, parglare, sys
assert parglare.__file__.startswith("/repo/"), parglare.__file__
print("setup ok: python", sys.version.split()[0], "z3", z3.get_version_string(), "parglare from", parglare.__file__)
EOF
mkdir -p /verif/evidence /verif/replays
