#!/bin/bash
# Runs every thorough check once (each capped at 100 min wall); evidence goes to evidence_thorough/ so that the
# committed quick-tier evidence is not overwritten.
cd "$(dirname "$0")/.."
export VERIF_EVIDENCE_DIR=/verif/evidence_thorough VERIF_REPLAY_DIR=/verif/replays_thorough
mkdir -p $VERIF_EVIDENCE_DIR
for id in ${@:-C05 C12 C16 C03 C02 C01 C17 C06 C04 C15 C18 C11 C08 C10 C20 C09 C13 C14 C19 C07}; do
  s=$(date +%s)
  timeout 6000 ./check $id --tier thorough > /tmp/vpthor-$id.log 2>&1
  rc=$?
  echo "$id rc=$rc $(( $(date +%s) - s ))s $(grep -a "^$id tier" /tmp/vpthor-$id.log)" | tee -a /tmp/run_thorough.log
done
echo DONE >> /tmp/run_thorough.log
