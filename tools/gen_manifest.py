#!/usr/bin/env python3
"""Regenerates /verif/MANIFEST.json from the harness modules' MANIFEST dicts (run with .venv python)."""
import importlib
import json
import os
import sys

VERIF = os.path.dirname(os.path.dirname(os.path.abspath(__file__)))
sys.path.insert(0, VERIF)

ALL = ["C%02d" % i for i in range(1, 21)]
NOT_BUILT = "check not built yet in this session (see DESIGN.md section 3 for the plan)"


def main():
    checks = []
    na = []
    extra_na = {}
    p = os.path.join(VERIF, "not_applicable.json")
    if os.path.exists(p):
        extra_na = json.load(open(p))
    for pid in ALL:
        path = os.path.join(VERIF, "harness", pid.lower() + ".py")
        if pid in extra_na:
            na.append({"property_id": pid, "reason": extra_na[pid]})
            continue
        if not os.path.exists(path):
            na.append({"property_id": pid, "reason": NOT_BUILT})
            continue
        mod = importlib.import_module("harness." + pid.lower())
        m = getattr(mod, "MANIFEST", None)
        info = getattr(mod, "INFO", {})
        if m is None:
            na.append({"property_id": pid, "reason": NOT_BUILT})
            continue
        checks.append(
            {
                "property_id": pid,
                "quick_cmd": "./check %s --tier quick" % pid,
                "thorough_cmd": "./check %s --tier thorough" % pid,
                "evidence_file": "/verif/evidence/%s.json" % pid,
                "replay_cmd_template": "./check %s --replay {path}" % pid,
                "engine": m.get("engine", "symx"),
                "level_claimed": {
                    "category": info.get("level", "other"),
                    "text": m["level_text"],
                    "design_ref": m.get("design_ref", "DESIGN.md section 3, %s" % pid),
                },
                "level_note": m["level_note"],
                "technique": m.get("technique", "bounded symbolic execution of the real code (CrossHair engine + z3), path-exhaustive within stated bounds"),
            }
        )
    man = {
        "version": 1,
        "setup_cmd": "./setup.sh",
        "hooks": {
            "guard": "PARGLARE_VERIF",
            "enable": "no source hooks: instrumentation is attached from the harness process (attribute assignment on imported parglare modules); /repo is imported as-is from its working tree",
            "baseline_off_cmd": "cd /repo && /venv/bin/python -m pytest -ra -q -p no:cacheprovider --timeout=900 --continue-on-collection-errors",
            "source_commits": [],
            "add_only": True,
        },
        "engines": [
            {
                "name": "symx",
                "path": "vp/symx.py",
                "serves_properties": [c["property_id"] for c in checks if c["engine"] == "symx"],
                "kind_free_text": "path-exhaustive symbolic execution of the real parglare code on CrossHair 0.0.110's engine (library API) with z3 5.1.0; reference oracles in vp/ref*.py; native replay of every counterexample",
            },
            {
                "name": "z3-direct",
                "path": "vp/horn.py",
                "serves_properties": [c["property_id"] for c in checks if c["engine"] == "z3-direct"],
                "kind_free_text": "z3 Fixedpoint (Datalog) / SMT queries over tables produced by the real create_table, against an independently built canonical LR(1) automaton",
            },
        ],
        "checks": checks,
        "not_applicable": na,
        "notes": "Technique family: solver-based checking of the real code. Exit codes of ./check: 0 held / 1 VIOLATION (replayed natively) / 3 harness error or undecided. See DESIGN.md.",
    }
    with open(os.path.join(VERIF, "MANIFEST.json"), "w") as f:
        json.dump(man, f, indent=1)
    print("checks:", [c["property_id"] for c in checks], "n/a:", [n["property_id"] for n in na])


if __name__ == "__main__":
    main()
