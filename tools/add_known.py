#!/usr/bin/env python3
"""Authoring-time: merge reviewed sweep output into known_findings.json.
usage: add_known.py PID sweep.json "<what fails>" """
import hashlib
import json
import os
import sys

VERIF = os.path.dirname(os.path.dirname(os.path.abspath(__file__)))
pid, sweep, what = sys.argv[1], sys.argv[2], sys.argv[3]
path = os.path.join(VERIF, "known_findings.json")
db = json.load(open(path)) if os.path.exists(path) else {"findings": [], "fixed": []}
db["findings"] = [k for k in db["findings"] if not (k["property"] == pid and k.get("auto"))]
for e in json.load(open(sweep)):
    if "__skip__" in e["inputs"]:
        continue
    inputs = sorted(e["inputs"], key=lambda s: (len(s), s))
    fid = "%s-%s" % (pid, hashlib.sha1(e["grammar"].encode()).hexdigest()[:8])
    db["findings"].append(
        {
            "id": fid,
            "property": pid,
            "status": "open",
            "auto": True,
            "grammar": e["grammar"],
            "inputs": inputs,
            "what": "%s: grammar '%s', inputs (layout-normalised) %s" % (what, e["grammar"], ",".join(inputs)),
            "first_detail": e["inputs"][inputs[0]],
            "module": "harness.%s" % pid.lower(),
            "params": {"grammar": e["grammar"], "gname": e["gname"], "tables": "LALR", "N": max(len(i) for i in inputs), "K": 200},
        }
    )
json.dump(db, open(path, "w"), indent=1)
print(len(db["findings"]), "findings")
