#!/usr/bin/env python3
"""Prints the markdown table of seeded changes (from seeded/*/meta.json) for DESIGN.md."""
import glob
import json
import os

import sys

VERIF = os.path.dirname(os.path.dirname(os.path.abspath(__file__)))
PREFIX = sys.argv[1] if len(sys.argv) > 1 else "C"
rows = []
for p in sorted(glob.glob(os.path.join(VERIF, "seeded", PREFIX + "*", "meta.json"))):
    m = json.load(open(p))
    sid = os.path.basename(os.path.dirname(p))
    det = m.get("detection", {})
    caught = ", ".join(m.get("caught_by") or []) or "MISSED"
    line = ""
    for c, d in det.items():
        for l in d.get("lines", []):
            if l.startswith("    case="):
                line = l.strip()[:140]
                break
        if line:
            break
    rows.append("| %s | %s | %s | %s | %s |" % (sid, (m.get("summary") or "")[:170].replace("|", "/"), (m.get("needs") or "")[:150].replace("|", "/"),
                                             caught, line.replace("|", "/")))
print("| seeded change | what was changed | needs, to manifest | caught by (quick tier) | first counterexample |")
print("|---|---|---|---|---|")
print("\n".join(rows))
