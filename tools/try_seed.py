#!/usr/bin/env python3
"""Authoring-time: confirm a seeded change written by a sub-agent and run the property's check on it.

usage: try_seed.py <ID> <k> [--checks C01,C02] [--tier quick]
  inputs : /tmp/wtout/<ID>/patch<k>.diff demo<k>.py notes<k>.json
  step 1 : scratch worktree of /repo HEAD: patch applies, suite passes, demo exits 1; clean tree: demo exits 0
  step 2 : git -C /repo apply; ./check <ID> (evidence/replays redirected to a temp dir); git -C /repo checkout -- .
  output : /verif/seeded/<ID>-<k>/{patch.diff, demo.py, meta.json}
/repo must be clean; never run two of these at once.
"""
import json
import os
import shutil
import subprocess
import sys
import tempfile
import time

VERIF = os.path.dirname(os.path.dirname(os.path.abspath(__file__)))


def sh(cmd, cwd=None, timeout=3600, env=None):
    p = subprocess.run(cmd, shell=True, cwd=cwd, capture_output=True, text=True, timeout=timeout, env=env)
    return p.returncode, (p.stdout + p.stderr)


def main():
    pid, k = sys.argv[1], sys.argv[2]
    checks = [pid]
    tier = "quick"
    srcroot, prefix = "/tmp/wtout", ""
    for i, a in enumerate(sys.argv):
        if a == "--checks":
            checks = sys.argv[i + 1].split(",")
        if a == "--tier":
            tier = sys.argv[i + 1]
        if a == "--src":
            srcroot = sys.argv[i + 1]
        if a == "--prefix":
            prefix = sys.argv[i + 1]
    via_worktree = "--via-worktree" in sys.argv
    src = "%s/%s" % (srcroot, pid)
    patch, demo, notes = ("%s/%s%s%s" % (src, n, k, e) for n, e in (("patch", ".diff"), ("demo", ".py"), ("notes", ".json")))
    meta = {"property": pid, "variant": int(k), "author": "independent sub-agent (saw only the property text and a scratch worktree)"}
    try:
        meta.update(json.load(open(notes)))
    except Exception as e:  # noqa
        meta["notes_error"] = repr(e)
    rc, out = sh("git status --porcelain --untracked-files=no", cwd="/repo")
    if out.strip() and not via_worktree:
        print("REFUSING: /repo has local modifications:\n" + out)
        return 2
    # ---- step 1: confirm in a scratch worktree
    wt = tempfile.mkdtemp(prefix="vp-seed-")
    os.rmdir(wt)
    sh("git -C /repo worktree add --detach %s HEAD" % wt)
    conf = {}
    try:
        rc, out = sh("git apply %s" % patch, cwd=wt)
        conf["applies"] = rc == 0
        if rc == 0:
            rc, out = sh("/venv/bin/python -m pytest -q -p no:cacheprovider --timeout=900 --deselect tests/func/pglr 2>&1 | tail -3", cwd=wt)
            conf["suite_tail"] = out.strip().splitlines()[-1] if out.strip() else ""
            conf["suite_passes"] = " passed" in out and "failed" not in out
            denv = dict(os.environ)
            denv["PYTHONPATH"] = wt  # the demo lives outside the worktree: make sure it imports the worktree's parglare
            rc, out = sh("/venv/bin/python %s" % demo, cwd=wt, timeout=600, env=denv)
            conf["demo_rc_with_change"] = rc
            conf["demo_output"] = out.strip()[-600:]
            sh("git checkout -- .", cwd=wt)
            rc, out = sh("/venv/bin/python %s" % demo, cwd=wt, timeout=600, env=denv)
            conf["demo_rc_clean"] = rc
    finally:
        sh("git -C /repo worktree remove --force %s" % wt)
        shutil.rmtree(wt, ignore_errors=True)
    meta["confirmation"] = conf
    ok = conf.get("applies") and conf.get("suite_passes") and conf.get("demo_rc_with_change") == 1 and conf.get("demo_rc_clean") == 0
    meta["confirmed"] = bool(ok)
    det = {}
    if ok:
        # ---- step 2: run the check(s) on /repo with the change applied
        tmp = tempfile.mkdtemp(prefix="vp-seed-ev-")
        env = dict(os.environ)
        env["VERIF_EVIDENCE_DIR"] = os.path.join(tmp, "evidence")
        env["VERIF_REPLAY_DIR"] = os.path.join(tmp, "replays")
        env["VERIF_SEED"] = env.get("VERIF_SEED", "0")
        wt2 = None
        if via_worktree:
            # /repo is in use by other runs: the patched tree is a scratch worktree that the check imports through PYTHONPATH
            wt2 = tempfile.mkdtemp(prefix="vp-seed-wt-")
            os.rmdir(wt2)
            sh("git -C /repo worktree add --detach %s HEAD" % wt2)
            rc, out = sh("git apply %s" % patch, cwd=wt2)
            env["PYTHONPATH"] = wt2
        else:
            rc, out = sh("git -C /repo apply %s" % patch)
        try:
            for c in checks:
                t0 = time.time()
                try:
                    rc, out = sh("./check %s --tier %s" % (c, tier), cwd=VERIF, env=env, timeout=7200)
                except subprocess.TimeoutExpired:
                    rc, out = 124, "timeout"
                lines = [l for l in out.splitlines() if l.startswith(("VIOLATION", "HARNESS-ERROR", "INCONCLUSIVE", "    case=")) or " tier=" in l]
                det[c] = {"exit": rc, "wall_s": round(time.time() - t0), "lines": [l[:400] for l in lines[:8]]}
        finally:
            if via_worktree:
                sh("git -C /repo worktree remove --force %s" % wt2)
                shutil.rmtree(wt2, ignore_errors=True)
            else:
                sh("git -C /repo checkout -- .")
            shutil.rmtree(tmp, ignore_errors=True)
    meta["detection"] = det
    meta["caught_by"] = [c for c, d in det.items() if d["exit"] == 1]
    meta["ran"] = "tools/try_seed.py %s %s --checks %s --tier %s%s" % (pid, k, ",".join(checks), tier, " --via-worktree (patched scratch worktree imported through PYTHONPATH; /repo untouched)" if via_worktree else "")
    outd = os.path.join(VERIF, "seeded", "%s%s-%s" % (prefix, pid, k))
    os.makedirs(outd, exist_ok=True)
    if os.path.exists(patch):
        shutil.copy(patch, os.path.join(outd, "patch.diff"))
    if os.path.exists(demo):
        shutil.copy(demo, os.path.join(outd, "demo.py"))
    with open(os.path.join(outd, "meta.json"), "w") as f:
        json.dump(meta, f, indent=1)
    print(json.dumps({"id": "%s%s-%s" % (prefix, pid, k), "confirmed": meta["confirmed"], "caught_by": meta["caught_by"],
                      "detection": {c: (d["exit"], d["wall_s"]) for c, d in det.items()}, "summary": meta.get("summary", "")[:160]}))
    return 0


if __name__ == "__main__":
    sys.exit(main())
