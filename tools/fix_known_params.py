import json, subprocess
subprocess.run(["/verif/.venv/bin/python","/verif/tools/add_known.py","C08","/tmp/C08_known.json","GLR packed node keeps the span of its first alternative: an alternative ending in an empty child placed after trailing layout lies outside its parent's span"],check=True)
p='/verif/known_findings.json'; db=json.load(open(p))
for k in db['findings']:
    if k['property']=='C08':
        k['params']={"grammar":k['grammar'],"gname":k['params']['gname'],"mode":"glr","layout":"ws","N":5,"K":32}
        k['what']=k['what'].replace("inputs (layout-normalised)","inputs (layout characters written as ' ')")
    if k['property']=='C17' and k.get('auto'):
        k['params']={"grammar":k['grammar'],"gname":k['params']['gname'],"mode":"glr","ld":False,"N":5,"K":300}
json.dump(db,open(p,'w'),indent=1)
from collections import Counter
print(Counter(k['property'] for k in db['findings']))
