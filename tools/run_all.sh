#!/bin/bash
# Runs every registered quick (or thorough) check in sequence; prints one summary line per check.
cd "$(dirname "$0")/.."
TIER=${1:-quick}
for id in C01 C02 C03 C04 C05 C06 C07 C08 C09 C10 C11 C12 C13 C14 C15 C16 C17 C18 C19 C20; do
  s=$(date +%s)
  ./check $id --tier $TIER > /tmp/vp-$id.log 2>&1
  rc=$?
  echo "$id rc=$rc $(( $(date +%s) - s ))s $(grep -a "^$id tier" /tmp/vp-$id.log)"
done
