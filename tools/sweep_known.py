#!/usr/bin/env python3
"""Authoring-time tool (never run by a check): sweeps a harness' whole universe natively and prints
candidate known-finding entries (failing inputs grouped per grammar).  The output is reviewed by
hand before anything is put into known_findings.json."""
import importlib
import itertools
import json
import os
import sys
from concurrent.futures import ProcessPoolExecutor

VERIF = os.path.dirname(os.path.dirname(os.path.abspath(__file__)))
sys.path.insert(0, VERIF)


def one(job):
    pid, gshort, gname, nmax = job
    from vp.symx import Pre, Skip
    from vp.gspec import parse_short

    mod = importlib.import_module("harness." + pid.lower())
    spec = parse_short(gshort)
    chars = mod.sweep_alphabet(spec) if hasattr(mod, "sweep_alphabet") else sorted({c for _, v in spec.terms.values() for c in v})
    bad = {}
    if hasattr(mod, "sweep_params"):
        plist = mod.sweep_params(gshort, gname, nmax)
    else:
        plist = [{"grammar": gshort, "gname": gname, "tables": tb, "N": nmax, "K": 200, "no_skip": True} for tb in ("LALR", "SLR")]
    for prm in plist:
        try:
            h = mod.build(prm, symbolic=False)
        except Skip as e:
            return gshort, gname, {"__skip__": str(e)}
        for n in range(nmax + 1):
            for cs in itertools.product(chars, repeat=n):
                w = "".join(cs)
                try:
                    r = h(w)
                except Pre:
                    continue
                except Exception as e:  # noqa
                    r = "exception %s: %s" % (type(e).__name__, e)
                if not (r is True or r is None):
                    bad.setdefault(w, str(r)[:150])
    return gshort, gname, bad


def main():
    pid = sys.argv[1]
    mod = importlib.import_module("harness." + pid.lower())
    jobs = [(pid, g.short(), g.name, nmax) for g, nmax in mod.universe()]
    seen = set()
    uj = []
    for j in jobs:
        if j[1] not in seen:
            seen.add(j[1])
            uj.append(j)
    out = []
    with ProcessPoolExecutor(16) as ex:
        for gshort, gname, bad in ex.map(one, uj, chunksize=8):
            if bad:
                out.append({"grammar": gshort, "gname": gname, "inputs": bad})
    print(json.dumps(out, indent=1))
    print("grammars swept:", len(uj), "with failures:", len(out), file=sys.stderr)


if __name__ == "__main__":
    main()
